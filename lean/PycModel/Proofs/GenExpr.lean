import PycModel.Properties.C17
/-!
# The generator's parenthesisation of expressions is sufficient (all expression forms)

`A` : expression ASTs as `CGenerator` receives them (no parentheses - the AST has none).
`G rp a : X` : the token-level tree of what the generator prints for `a` - a mirror of the rules in
`c_generator.py` (`visit_UnaryOp`, `visit_BinaryOp`, `visit_Assignment`, `visit_TernaryOp`, `visit_Cast`,
`visit_ArrayRef`, `visit_StructRef`, `visit_FuncCall`, `visit_ExprList`, `_visit_expr`, `_parenthesize_if`,
`_parenthesize_unless_simple`, `_is_simple_node`), every pair of parentheses it emits being an `X.paren`.
The correspondence check compares `(G rp a).flat` with the tokens of the real generator's text on
the same AST.

`wf_G` : what the generator prints is derivable by the C grammar (`WFX 0`), so by
`FullExpr.parse_full` the parser model accepts it and returns `(G rp a).val`;
`shape_G` : that value, coordinates erased, is the AST the generator was given.
-/
namespace PycModel.GenExpr
open PycModel PycModel.FullExpr PycModel.TypeName PycModel.C17

mutual
/-- expression ASTs (the node classes `ID`, `Constant`, `UnaryOp`, `ArrayRef`, `StructRef`, `FuncCall`,
`BinaryOp`, `TernaryOp`, `Assignment`, `ExprList`, `Cast`, `UnaryOp(sizeof / _Alignof, Typename)`) -/
inductive A where
  | id (x : String)
  | const (k v t : String)
  | pre (k v : String) (e : A)
  | szof (e : A)
  | post (k v : String) (e : A)
  | index (e i : A)
  | member (k v : String) (e : A) (f : String)
  | call (f : A) (args : AL)
  | bin (k v : String) (l r : A)
  | cond (c t f : A)
  | assign (k v : String) (l r : A)
  | comma (a : A) (rest : AL)          -- `ExprList`: `a` and at least one more
  | cast (tn : TN) (e : A)
  | szofT (tn : TN)
  | alignT (tn : TN)
inductive AL where
  | nil
  | cons (a : A) (r : AL)
end

namespace A
/-- `_is_simple_node` -/
def isSimple : A → Bool
  | id _ | const .. | index .. | member .. | call .. => true
  | _ => false
def isComma : A → Bool
  | comma .. => true
  | _ => false
def isAssign : A → Bool
  | assign .. => true
  | _ => false
def isConst : A → Bool
  | const .. => true
  | _ => false
def isBin : A → Bool
  | bin .. => true
  | _ => false
def isCond : A → Bool
  | cond .. => true
  | _ => false
/-- the level of a `BinaryOp` in the generator's `precedence_map` -/
def binLevel : A → Option Nat
  | bin k _ _ _ => binPrec k
  | _ => none
end A

/-- `_visit_expr`: an `ExprList` gets parentheses -/
def ve (a : A) (x : X) : X := if a.isComma then .paren x else x
/-- `_parenthesize_unless_simple` -/
def pus (a : A) (x : X) : X := if a.isSimple then ve a x else .paren (ve a x)
/-- does the left operand of a `BinaryOp` of level `p` stay without parentheses? -/
def bareL (rp : Bool) (p : Nat) (a : A) : Bool :=
  a.isSimple || (rp && (match a.binLevel with | some q => decide (q ≥ p) | none => false))
/-- ... the right operand? -/
def bareR (rp : Bool) (p : Nat) (a : A) : Bool :=
  a.isSimple || (rp && (match a.binLevel with | some q => decide (q > p) | none => false))
def pifL (rp : Bool) (p : Nat) (a : A) (x : X) : X := if bareL rp p a then ve a x else .paren (ve a x)
def pifR (rp : Bool) (p : Nat) (a : A) (x : X) : X := if bareR rp p a then ve a x else .paren (ve a x)
/-- both sides of an `Assignment` -/
def pifA (a : A) (x : X) : X := if a.isAssign then .paren (ve a x) else ve a x

mutual
/-- what the generator prints, as a token-level tree -/
def G (rp : Bool) : A → X
  | .id x => .id x
  | .const k v t => .const k v t
  | .pre k v e => .pre k v (pus e (G rp e))
  | .szof e => .szof (.paren (G rp e))
  | .post k v e => .post k v (pus e (G rp e))
  | .index e i => .index (pus e (G rp e)) (G rp i)
  | .member k v e f => .member k v (if e.isConst then .paren (pus e (G rp e)) else pus e (G rp e)) f
  | .call f .nil => .call0 (pus f (G rp f))
  | .call f (.cons a r) => .call (pus f (G rp f)) (Gargs rp (.cons a r))
  | .bin k v l r => .bin k v (pifL rp ((binPrec k).getD 0) l (G rp l)) (pifR rp ((binPrec k).getD 0) r (G rp r))
  | .cond c t f => .cond (.paren (ve c (G rp c))) (.paren (ve t (G rp t))) (.paren (ve f (G rp f)))
  | .assign k v l r => .assign k v (pifA l (G rp l)) (pifA r (G rp r))
  | .comma a rest => .comma (ve a (G rp a)) (Gargs rp rest)
  | .cast tn e => .cast tn (pus e (G rp e))
  | .szofT tn => .szofT tn
  | .alignT tn => .alignT tn
/-- the items of an `ExprList`, each through `_visit_expr`, separated by commas -/
def Gargs (rp : Bool) : AL → X
  | .nil => .id ""
  | .cons a .nil => ve a (G rp a)
  | .cons a (.cons b r) => .comma (ve a (G rp a)) (Gargs rp (.cons b r))
end

mutual
/-- the AST, as a coordinate-free value -/
def A.shape : A → Val
  | .id x => .node .ID none [.str x]
  | .const _ v t => .node .Constant none [.str t, .str v]
  | .pre _ v e => .node .UnaryOp none [.str v, e.shape]
  | .szof e => .node .UnaryOp none [.str "sizeof", e.shape]
  | .post _ v e => .node .UnaryOp none [.str ("p" ++ v), e.shape]
  | .index e i => .node .ArrayRef none [e.shape, i.shape]
  | .member _ v e f => .node .StructRef none [e.shape, .str v, .node .ID none [.str f]]
  | .call f .nil => .node .FuncCall none [f.shape, .none]
  | .call f (.cons a r) => .node .FuncCall none [f.shape, .node .ExprList none [.list (AL.shapes (.cons a r))]]
  | .bin _ v l r => .node .BinaryOp none [.str v, l.shape, r.shape]
  | .cond c t f => .node .TernaryOp none [c.shape, t.shape, f.shape]
  | .assign _ v l r => .node .Assignment none [.str v, l.shape, r.shape]
  | .comma a rest => .node .ExprList none [.list (a.shape :: AL.shapes rest)]
  | .cast tn e => .node .Cast none [erase (tn.val 0), e.shape]
  | .szofT tn => .node .UnaryOp none [.str "sizeof", erase (tn.val 0)]
  | .alignT tn => .node .UnaryOp none [.str "_Alignof", erase (tn.val 0)]
def AL.shapes : AL → List Val
  | .nil => []
  | .cons a r => a.shape :: AL.shapes r
end

mutual
/-- the ASTs of the theorem: operators from the tables, constants with the type their spelling
implies, an assignment's left side not a bare binary or conditional expression (the generator prints
no parentheses there and the C grammar has no such production), well-formed type names -/
def WFA : A → Prop
  | .id _ => True
  | .const k v t => constType k v = some t
  | .pre k _ e => k ∈ prefixOps ∧ WFA e
  | .szof e => WFA e
  | .post k _ e => k ∈ incDec ∧ WFA e
  | .index e i => WFA e ∧ WFA i
  | .member k _ e _ => k ∈ memberOps ∧ WFA e
  | .call f args => WFA f ∧ WFAL args
  | .bin k _ l r => (binPrec k).isSome = true ∧ WFA l ∧ WFA r
  | .cond c t f => WFA c ∧ WFA t ∧ WFA f
  | .assign k _ l r => k ∈ assignmentOps ∧ l.isBin = false ∧ l.isCond = false ∧ WFA l ∧ WFA r
  | .comma a rest => WFA a ∧ rest ≠ .nil ∧ WFAL rest
  | .cast tn e => WFTN tn ∧ WFA e
  | .szofT tn => WFTN tn
  | .alignT tn => WFTN tn
def WFAL : AL → Prop
  | .nil => True
  | .cons a r => WFA a ∧ WFAL r
end

/-! ## parentheses change nothing but coordinates -/

/-- `y` is `x` inside zero, one or two pairs of parentheses -/
def Wrap (x y : X) : Prop := y = x ∨ y = .paren x ∨ y = .paren (.paren x)

theorem Wrap.erase {x y : X} (h : Wrap x y) (s : Val) (hx : ∀ n, erase (x.val n) = s) : ∀ n, erase (y.val n) = s := by
  intro n
  rcases h with rfl | rfl | rfl
  · exact hx n
  · exact hx (n + 1)
  · exact hx (n + 1 + 1)

theorem wrap_ve (a : A) (x : X) : Wrap x (ve a x) := by
  unfold ve; by_cases h : a.isComma = true <;> simp [h, Wrap]

theorem wrap_pus (a : A) (x : X) : Wrap x (pus a x) := by
  unfold pus ve; by_cases h1 : a.isSimple = true <;> by_cases h2 : a.isComma = true <;> simp [h1, h2, Wrap]

theorem wrap_pifL (rp : Bool) (p : Nat) (a : A) (x : X) : Wrap x (pifL rp p a x) := by
  unfold pifL ve; by_cases h1 : bareL rp p a = true <;> by_cases h2 : a.isComma = true <;> simp [h1, h2, Wrap]

theorem wrap_pifR (rp : Bool) (p : Nat) (a : A) (x : X) : Wrap x (pifR rp p a x) := by
  unfold pifR ve; by_cases h1 : bareR rp p a = true <;> by_cases h2 : a.isComma = true <;> simp [h1, h2, Wrap]

theorem wrap_pifA (a : A) (x : X) : Wrap x (pifA a x) := by
  unfold pifA ve; by_cases h1 : a.isAssign = true <;> by_cases h2 : a.isComma = true <;> simp [h1, h2, Wrap]

/-- a tree that is not a bare comma expression is one item -/
theorem items_single (x : X) (h : ∀ a b, x ≠ .comma a b) (n : Nat) : X.items n x = [x.val n] := by
  cases x <;> first | rfl | exact absurd rfl (h _ _)

theorem G_not_comma (rp : Bool) (a : A) (h : a.isComma = false) : ∀ p q, G rp a ≠ .comma p q := by
  intro p q h'
  cases a with
  | comma a rest => simp [A.isComma] at h
  | call f args => cases args <;> simp [G] at h'
  | _ => simp [G] at h'

theorem ve_not_comma (rp : Bool) (a : A) : ∀ p q, ve a (G rp a) ≠ .comma p q := by
  intro p q
  unfold ve
  by_cases h : a.isComma = true
  · simp only [h, ↓reduceIte]; intro h'; cases h'
  · simp only [h, Bool.false_eq_true, ↓reduceIte]
    exact G_not_comma rp a (by simpa using h) p q

/-! ## the printed text has the AST that was printed -/

mutual
/-- **the value of the printed tree, coordinates erased, is the AST the generator was given** -/
theorem shape_G (rp : Bool) : ∀ (a : A), WFA a → ∀ (n : Nat), erase ((G rp a).val n) = a.shape
  | .id x, _, n => by simp [G, X.val, ParenExpr.idNode, mk, erase, eraseL, A.shape]
  | .const k v t, _, n => by simp [G, X.val, mk, erase, eraseL, A.shape]
  | .pre k v e, hw, n => by
    have hw' : k ∈ prefixOps ∧ WFA e := hw
    have hy := (wrap_pus e (G rp e)).erase e.shape (shape_G rp e hw'.2)
    simp only [G, X.val, mk, erase, eraseL, A.shape, hy]
  | .szof e, hw, n => by
    have hw' : WFA e := hw
    have hy := shape_G rp e hw'
    simp only [G, X.val, mk, erase, eraseL, A.shape, hy]
  | .post k v e, hw, n => by
    have hw' : k ∈ incDec ∧ WFA e := hw
    have hy := (wrap_pus e (G rp e)).erase e.shape (shape_G rp e hw'.2)
    simp only [G, X.val, mk, erase, eraseL, A.shape, hy]
  | .index e i, hw, n => by
    have hw' : WFA e ∧ WFA i := hw
    have hy := (wrap_pus e (G rp e)).erase e.shape (shape_G rp e hw'.1)
    have hi := shape_G rp i hw'.2
    simp only [G, X.val, mk, erase, eraseL, A.shape, hy, hi]
  | .member k v e f, hw, n => by
    have hw' : k ∈ memberOps ∧ WFA e := hw
    have hy := (wrap_pus e (G rp e)).erase e.shape (shape_G rp e hw'.2)
    by_cases hc : e.isConst = true
    · simp only [G, hc, ↓reduceIte, X.val, mk, erase, eraseL, A.shape, hy, ParenExpr.idNode]
    · simp only [G, hc, Bool.false_eq_true, ↓reduceIte, X.val, mk, erase, eraseL, A.shape, hy, ParenExpr.idNode]
  | .call f .nil, hw, n => by
    have hw' : WFA f ∧ WFAL .nil := hw
    have hy := (wrap_pus f (G rp f)).erase f.shape (shape_G rp f hw'.1)
    simp only [G, X.val, mk, erase, eraseL, A.shape, hy]
  | .call f (.cons a r), hw, n => by
    have hw' : WFA f ∧ WFAL (.cons a r) := hw
    have hy := (wrap_pus f (G rp f)).erase f.shape (shape_G rp f hw'.1)
    have hl := shapes_Gargs rp (.cons a r) hw'.2 (by intro h; cases h)
    simp only [G, X.val, mk, erase, eraseL, A.shape, hy, hl]
  | .bin k v l r, hw, n => by
    have hw' : (binPrec k).isSome = true ∧ WFA l ∧ WFA r := hw
    have hl := (wrap_pifL rp ((binPrec k).getD 0) l (G rp l)).erase l.shape (shape_G rp l hw'.2.1)
    have hr := (wrap_pifR rp ((binPrec k).getD 0) r (G rp r)).erase r.shape (shape_G rp r hw'.2.2)
    simp only [G, X.val, mk, erase, eraseL, A.shape, hl, hr]
  | .cond c t f, hw, n => by
    have hw' : WFA c ∧ WFA t ∧ WFA f := hw
    have hc := (wrap_ve c (G rp c)).erase c.shape (shape_G rp c hw'.1)
    have ht := (wrap_ve t (G rp t)).erase t.shape (shape_G rp t hw'.2.1)
    have hf := (wrap_ve f (G rp f)).erase f.shape (shape_G rp f hw'.2.2)
    simp only [G, X.val, mk, erase, eraseL, A.shape, hc, ht, hf]
  | .assign k v l r, hw, n => by
    have hw' : k ∈ assignmentOps ∧ l.isBin = false ∧ l.isCond = false ∧ WFA l ∧ WFA r := hw
    have hl := (wrap_pifA l (G rp l)).erase l.shape (shape_G rp l hw'.2.2.2.1)
    have hr := (wrap_pifA r (G rp r)).erase r.shape (shape_G rp r hw'.2.2.2.2)
    simp only [G, X.val, mk, erase, eraseL, A.shape, hl, hr]
  | .comma a rest, hw, n => by
    have hw' : WFA a ∧ rest ≠ .nil ∧ WFAL rest := hw
    have ha := (wrap_ve a (G rp a)).erase a.shape (shape_G rp a hw'.1)
    have hl := shapes_Gargs rp rest hw'.2.2 hw'.2.1
    simp only [G, X.val, mk, erase, eraseL, A.shape, ha, hl]
  | .cast tn e, hw, n => by
    have hw' : WFTN tn ∧ WFA e := hw
    have hy := (wrap_pus e (G rp e)).erase e.shape (shape_G rp e hw'.2)
    simp only [G, X.val, mk, erase, eraseL, A.shape, hy, erase_tnval tn (n + 1) 0]
  | .szofT tn, _, n => by
    simp only [G, X.val, mk, erase, eraseL, A.shape, erase_tnval tn (n + 2) 0]
  | .alignT tn, _, n => by
    simp only [G, X.val, mk, erase, eraseL, A.shape, erase_tnval tn (n + 2) 0]
theorem shapes_Gargs (rp : Bool) : ∀ (l : AL), WFAL l → l ≠ .nil → ∀ n, eraseL (X.items n (Gargs rp l)) = l.shapes
  | .nil, _, h, _ => absurd rfl h
  | .cons a .nil, hw, _, n => by
    have hw' : WFA a ∧ WFAL .nil := hw
    have ha := (wrap_ve a (G rp a)).erase a.shape (shape_G rp a hw'.1)
    simp only [Gargs, items_single _ (ve_not_comma rp a), eraseL, AL.shapes, ha]
  | .cons a (.cons b r), hw, _, n => by
    have hw' : WFA a ∧ WFAL (.cons b r) := hw
    have ha := (wrap_ve a (G rp a)).erase a.shape (shape_G rp a hw'.1)
    have hl := shapes_Gargs rp (.cons b r) hw'.2 (by intro h; cases h)
    simp only [Gargs, X.items, eraseL, AL.shapes, ha, hl]
end

/-! ## the printed text is derivable by the C grammar -/

/-- the grammar level at which an AST node is printed without parentheses of its own -/
def lvl : A → Nat
  | .id _ | .const .. | .post .. | .index .. | .member .. | .call .. => 14
  | .pre .. | .szof _ | .cast .. | .szofT _ | .alignT _ => 13
  | .bin k _ _ _ => 3 + (binPrec k).getD 0
  | .cond .. => 2
  | .assign .. => 1
  | .comma .. => 0

theorem simple_lvl {a : A} (h : a.isSimple = true) : lvl a = 14 ∧ a.isComma = false := by
  cases a <;> simp [A.isSimple] at h <;> exact ⟨rfl, rfl⟩

theorem lvl_pos {a : A} (h : a.isComma = false) : 1 ≤ lvl a := by
  cases a <;> simp [A.isComma] at h <;> simp only [lvl] <;> omega

theorem wf_ve (L : Nat) (a : A) (x : X) (hL : a.isComma = false → L ≤ lvl a) (hx : WFX (lvl a) x) : WFX L (ve a x) := by
  unfold ve
  by_cases h : a.isComma = true
  · simp only [h, ↓reduceIte]
    exact .paren _ _ (hx.weaken (Nat.zero_le _))
  · simp only [h, Bool.false_eq_true, ↓reduceIte]
    exact hx.weaken (hL (by simpa using h))

theorem wf_pus (a : A) (x : X) (hx : WFX (lvl a) x) : WFX 14 (pus a x) := by
  unfold pus
  by_cases h : a.isSimple = true
  · simp only [h, ↓reduceIte]
    obtain ⟨h1, h2⟩ := simple_lvl h
    exact wf_ve 14 a x (fun _ => by omega) hx
  · simp only [h, Bool.false_eq_true, ↓reduceIte]
    exact .paren _ _ (wf_ve 0 a x (fun _ => Nat.zero_le _) hx)

theorem binLevel_lvl {a : A} {q : Nat} (h : a.binLevel = some q) : lvl a = 3 + q ∧ a.isComma = false := by
  cases a <;> simp [A.binLevel] at h
  rename_i k v l r
  simp [lvl, h, A.isComma]

theorem wf_pifL (rp : Bool) (p : Nat) (hp : p ≤ 9) (a : A) (x : X) (hx : WFX (lvl a) x) : WFX (3 + p) (pifL rp p a x) := by
  unfold pifL
  by_cases h : bareL rp p a = true
  · simp only [h, ↓reduceIte]
    refine wf_ve _ a x (fun _ => ?_) hx
    unfold bareL at h
    simp only [Bool.or_eq_true, Bool.and_eq_true] at h
    rcases h with h | ⟨_, h⟩
    · have := (simple_lvl h).1; omega
    · cases hb : a.binLevel with
      | none => simp [hb] at h
      | some q =>
        simp only [hb, decide_eq_true_eq] at h
        have := (binLevel_lvl hb).1; omega
  · simp only [h, Bool.false_eq_true, ↓reduceIte]
    exact .paren _ _ (wf_ve 0 a x (fun _ => Nat.zero_le _) hx)

theorem wf_pifR (rp : Bool) (p : Nat) (hp : p ≤ 9) (a : A) (x : X) (hx : WFX (lvl a) x) : WFX (3 + p + 1) (pifR rp p a x) := by
  unfold pifR
  by_cases h : bareR rp p a = true
  · simp only [h, ↓reduceIte]
    refine wf_ve _ a x (fun _ => ?_) hx
    unfold bareR at h
    simp only [Bool.or_eq_true, Bool.and_eq_true] at h
    rcases h with h | ⟨_, h⟩
    · have := (simple_lvl h).1; omega
    · cases hb : a.binLevel with
      | none => simp [hb] at h
      | some q =>
        simp only [hb, decide_eq_true_eq] at h
        have := (binLevel_lvl hb).1; omega
  · simp only [h, Bool.false_eq_true, ↓reduceIte]
    exact .paren _ _ (wf_ve 0 a x (fun _ => Nat.zero_le _) hx)

/-- the right side of an assignment is an assignment-expression -/
theorem wf_pifA_r (a : A) (x : X) (hx : WFX (lvl a) x) : WFX 1 (pifA a x) := by
  unfold pifA
  by_cases h : a.isAssign = true
  · simp only [h, ↓reduceIte]
    exact .paren _ _ (wf_ve 0 a x (fun _ => Nat.zero_le _) hx)
  · simp only [h, Bool.false_eq_true, ↓reduceIte]
    exact wf_ve 1 a x (fun hc => lvl_pos hc) hx

/-- the left side is a unary-expression, if the AST's left side is not a binary or conditional expression -/
theorem wf_pifA_l (a : A) (x : X) (hb : a.isBin = false) (hc : a.isCond = false) (hx : WFX (lvl a) x) : WFX 13 (pifA a x) := by
  unfold pifA
  by_cases h : a.isAssign = true
  · simp only [h, ↓reduceIte]
    exact .paren _ _ (wf_ve 0 a x (fun _ => Nat.zero_le _) hx)
  · simp only [h, Bool.false_eq_true, ↓reduceIte]
    refine wf_ve 13 a x (fun hcm => ?_) hx
    cases a <;> simp [A.isBin, A.isCond, A.isAssign, A.isComma] at hb hc h hcm <;> simp only [lvl] <;> omega

theorem pus_not_cast (rp : Bool) (e : A) : (pus e (G rp e)).isCast = false := by
  by_cases hs : e.isSimple = true
  · have hc := (simple_lvl hs).2
    have h1 : pus e (G rp e) = G rp e := by simp [pus, ve, hs, hc]
    rw [h1]
    cases e <;> first
      | rfl
      | (rename_i f args; cases args <;> rfl)
      | (simp [A.isSimple] at hs)
  · have h1 : pus e (G rp e) = .paren (ve e (G rp e)) := by simp [pus, hs]
    rw [h1]; rfl

mutual
/-- **what the generator prints is an expression of the C grammar** -/
theorem wf_G (rp : Bool) : ∀ (a : A), WFA a → WFX (lvl a) (G rp a)
  | .id x, _ => .id _ _
  | .const k v t, hw => .const _ _ _ _ hw
  | .pre k v e, hw => by
    have hw' : k ∈ prefixOps ∧ WFA e := hw
    have hy := wf_pus e _ (wf_G rp e hw'.2)
    exact .pre _ _ _ _ (Nat.le_refl _) hw'.1 (hy.weaken (by omega)) (fun _ => pus_not_cast rp e)
  | .szof e, hw => by
    have hw' : WFA e := hw
    exact .szof _ _ (Nat.le_refl _) (.paren _ _ ((wf_G rp e hw').weaken (Nat.zero_le _))) rfl
  | .post k v e, hw => by
    have hw' : k ∈ incDec ∧ WFA e := hw
    exact .post _ _ _ _ (Nat.le_refl _) hw'.1 (wf_pus e _ (wf_G rp e hw'.2))
  | .index e i, hw => by
    have hw' : WFA e ∧ WFA i := hw
    exact .index _ _ _ (Nat.le_refl _) (wf_pus e _ (wf_G rp e hw'.1)) ((wf_G rp i hw'.2).weaken (Nat.zero_le _))
  | .member k v e f, hw => by
    have hw' : k ∈ memberOps ∧ WFA e := hw
    have hy := wf_pus e _ (wf_G rp e hw'.2)
    refine .member _ _ _ _ _ (Nat.le_refl _) hw'.1 ?_
    by_cases hc : e.isConst = true
    · simp only [hc, ↓reduceIte]; exact .paren _ _ (hy.weaken (Nat.zero_le _))
    · simp only [hc, Bool.false_eq_true, ↓reduceIte]; exact hy
  | .call f .nil, hw => by
    have hw' : WFA f ∧ WFAL .nil := hw
    exact .call0 _ _ (Nat.le_refl _) (wf_pus f _ (wf_G rp f hw'.1))
  | .call f (.cons a r), hw => by
    have hw' : WFA f ∧ WFAL (.cons a r) := hw
    exact .call _ _ _ (Nat.le_refl _) (wf_pus f _ (wf_G rp f hw'.1)) (wf_Gargs rp (.cons a r) hw'.2 (by intro h; cases h))
  | .bin k v l r, hw => by
    have hw' : (binPrec k).isSome = true ∧ WFA l ∧ WFA r := hw
    obtain ⟨p, hp⟩ := Option.isSome_iff_exists.mp hw'.1
    have hp9 := binPrec_le k p hp
    have hl := wf_pifL rp p hp9 l _ (wf_G rp l hw'.2.1)
    have hr := wf_pifR rp p hp9 r _ (wf_G rp r hw'.2.2)
    show WFX (3 + (binPrec k).getD 0) (.bin k v (pifL rp ((binPrec k).getD 0) l (G rp l)) (pifR rp ((binPrec k).getD 0) r (G rp r)))
    simp only [hp, Option.getD_some]
    exact .bin _ p k v _ _ hp (Nat.le_refl _) hl hr
  | .cond c t f, hw => by
    have hw' : WFA c ∧ WFA t ∧ WFA f := hw
    exact .cond _ _ _ _ (Nat.le_refl _)
      (.paren _ _ (wf_ve 0 c _ (fun _ => Nat.zero_le _) (wf_G rp c hw'.1)))
      (.paren _ _ (wf_ve 0 t _ (fun _ => Nat.zero_le _) (wf_G rp t hw'.2.1)))
      (.paren _ _ (wf_ve 0 f _ (fun _ => Nat.zero_le _) (wf_G rp f hw'.2.2)))
  | .assign k v l r, hw => by
    have hw' : k ∈ assignmentOps ∧ l.isBin = false ∧ l.isCond = false ∧ WFA l ∧ WFA r := hw
    exact .assign _ _ _ _ _ (Nat.le_refl _) hw'.1 (wf_pifA_l l _ hw'.2.1 hw'.2.2.1 (wf_G rp l hw'.2.2.2.1))
      (wf_pifA_r r _ (wf_G rp r hw'.2.2.2.2))
  | .comma a rest, hw => by
    have hw' : WFA a ∧ rest ≠ .nil ∧ WFAL rest := hw
    exact .comma _ _ (wf_ve 1 a _ (fun hc => lvl_pos hc) (wf_G rp a hw'.1)) (wf_Gargs rp rest hw'.2.2 hw'.2.1)
  | .cast tn e, hw => by
    have hw' : WFTN tn ∧ WFA e := hw
    exact .cast _ _ _ (Nat.le_refl _) hw'.1 ((wf_pus e _ (wf_G rp e hw'.2)).weaken (by omega))
  | .szofT tn, hw => .szofT _ _ (Nat.le_refl _) hw
  | .alignT tn, hw => .alignT _ _ (Nat.le_refl _) hw
theorem wf_Gargs (rp : Bool) : ∀ (l : AL), WFAL l → l ≠ .nil → WFX 0 (Gargs rp l)
  | .nil, _, h => absurd rfl h
  | .cons a .nil, hw, _ => by
    have hw' : WFA a ∧ WFAL .nil := hw
    exact wf_ve 0 a _ (fun _ => Nat.zero_le _) (wf_G rp a hw'.1)
  | .cons a (.cons b r), hw, _ => by
    have hw' : WFA a ∧ WFAL (.cons b r) := hw
    exact .comma _ _ (wf_ve 1 a _ (fun hc => lvl_pos hc) (wf_G rp a hw'.1)) (wf_Gargs rp (.cons b r) hw'.2 (by intro h; cases h))
end

end PycModel.GenExpr
