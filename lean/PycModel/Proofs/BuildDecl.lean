import PycModel.Proofs.DeclSkel
import PycModel.Proofs.ChainLemmas
/-!
# `_build_declarations` on declarations of keyword / typedef-name specifiers and named declarators

`_build_declarations` turns the declaration specifiers and the list of init-declarators into one
`Decl` node per declared name.  For every declaration of the fragment below (any number of
declarators, each a modifier chain of any length around the `TypeDecl` of the name; specifiers:
qualifiers, storage classes other than `typedef`, function specifiers, alignment specifiers, a
non-empty list of type keywords / one typedef name) this file proves what it returns:

* each declared name gets its own `Decl`, in source order, carrying the declared name, **all**
  specifier lists unchanged and in order, the declarator's modifier chain unchanged, and at the end
  of the chain the `TypeDecl` completed with the qualifiers and with one `IdentifierType` that
  lists the type-specifier names in source order (`_fix_decl_name_type`);
* `fix_atomic_specifiers` leaves such a declaration alone;
* each name is registered as an ordinary identifier in the current scope, which keeps the token
  view (the name must not be a typedef name of the static environment).
-/
namespace PycModel.BuildDecl
open PycModel PycModel.View PycModel.OperandId PycModel.FullExpr PycModel.TypeModify PycModel.DeclSkel

variable {env : Env}

theorem wrap_not_typename (m : M) (t : Val) : (m.wrap t).isCls .Typename = false := by cases m <;> rfl

/-- `fix_atomic_specifiers` finds no `_Atomic(...)` wrapper below a chain that ends in a completed
`TypeDecl` of an `IdentifierType` -/
theorem atomicPath_chain (x : String) (co ico : Option Coord) (quals : List Val) (names : List String) :
    ∀ (ms : List M) (fuel : Nat) (acc : List Val), ms.length + 2 ≤ fuel →
    atomicPath fuel (chainVal ms (tdFull x co quals (identType ico names))) acc = none
  | [], fuel, acc, hf => by
    obtain ⟨g, rfl⟩ : ∃ g, fuel = g + 2 := ⟨fuel - 2, by simp at hf; omega⟩
    simp [atomicPath, chainVal, tdFull, identType, mk, Val.isCls, Val.cls?, Val.getAttr, Val.fieldIdx, Val.fieldIdx.go,
      Cls.fields]
  | m :: ms, fuel, acc, hf => by
    obtain ⟨g, rfl⟩ : ∃ g, fuel = g + 1 := ⟨fuel - 1, by simp at hf; omega⟩
    have hnn : ∀ v, m.wrap v ≠ Val.none := by intro v; cases m <;> simp [M.wrap, mk]
    simp only [chainVal]
    unfold atomicPath
    split
    · rename_i h; exact absurd h (hnn _)
    · simp only [wrap_not_typename, Bool.false_and, Bool.false_eq_true, ↓reduceIte, wrap_getType]
      exact atomicPath_chain x co ico quals names ms g _ (by simp at hf; omega)

/-! ## `_fix_decl_name_type` -/

/-- the `Decl` as `_build_declarations` first makes it (name still unknown) -/
def declPre (dco : Option Coord) (q al st fn : List Val) (ty init : Val) : Val :=
  mk .Decl dco [.none, .list q, .list al, .list st, .list fn, ty, init, .none]

/-- ... and as it leaves `_fix_decl_name_type` -/
def declPost (x : String) (dco : Option Coord) (q al st fn : List Val) (ty init : Val) : Val :=
  mk .Decl dco [.str x, .list q, .list al, .list st, .list fn, ty, init, .none]

def tdRaw (x : String) (co : Option Coord) : Val := mk .TypeDecl co [.str x, .none, .none, .none]

theorem tdRaw_isTypeDecl (x : String) (co : Option Coord) : (tdRaw x co).isCls .TypeDecl = true := rfl
theorem tdFull_isTypeDecl (x : String) (co : Option Coord) (q : List Val) (t : Val) :
    (tdFull x co q t).isCls .TypeDecl = true := rfl

theorem decl_size (dco : Option Coord) (a b c d e ty f g : Val) (ms : List M) (td : Val) (h : ty = chainVal ms td) :
    ms.length + 2 ≤ (mk .Decl dco [a, b, c, d, e, ty, f, g]).tlen := by
  subst h
  have := chain_size ms td
  have h1 : 1 ≤ td.tlen := by cases td <;> simp [Val.tlen]
  have h2 := Val.tlen_getType (mk .Decl dco [a, b, c, d, e, chainVal ms td, f, g]) (chainVal ms td) rfl
  omega

theorem mapInner_decl (f : Val → Option Val) (dco : Option Coord) (a b c d e i g : Val) (ms : List M) (td : Val)
    (htd : td.isCls .TypeDecl = true) (F : Nat) (hF : ms.length < F) :
    mapInnerTypeDecl (F + 1) (mk .Decl dco [a, b, c, d, e, chainVal ms td, i, g]) f =
      (f td).map fun td' => mk .Decl dco [a, b, c, d, e, chainVal ms td', i, g] := by
  have h1 : (mk .Decl dco [a, b, c, d, e, chainVal ms td, i, g]).isCls .TypeDecl = false := rfl
  have h2 : (mk .Decl dco [a, b, c, d, e, chainVal ms td, i, g]).getAttr "type" = some (chainVal ms td) := rfl
  simp only [mapInnerTypeDecl, h1, h2, Bool.false_eq_true, ↓reduceIte, mapInnerTypeDecl_chain f ms td F htd hF]
  cases f td with
  | none => rfl
  | some t' => rfl

/-- **`_fix_decl_name_type`** on a named declarator chain and keyword / typedef-name specifiers:
the declaration gets the declared name; the `TypeDecl` at the end of the chain gets a copy of
the qualifiers and ONE `IdentifierType` listing the specifier names in source order; the modifier
chain itself is untouched -/
theorem fixDeclNameType_ok (x : String) (dco tco : Option Coord) (q al st fn : List Val) (ms : List M) (init : Val)
    (p0 : String × Option Coord) (names : List (String × Option Coord)) (s : PState) :
    fixDeclNameType (declPre dco q al st fn (chainVal ms (tdRaw x tco)) init) (typeNodes (p0 :: names)) s =
      .ok (declPost x dco q al st fn
        (chainVal ms (tdFull x tco q (identType p0.2 ((p0 :: names).map (·.1))))) init) s := by
  have hsz := decl_size dco .none (.list q) (.list al) (.list st) (.list fn) _ init .none ms (tdRaw x tco) rfl
  have hsz' := decl_size dco (.str x) (.list q) (.list al) (.list st) (.list fn) _ init .none ms (tdRaw x tco) rfl
  -- the innermost TypeDecl
  have hinner : innerTypeDecl ((declPre dco q al st fn (chainVal ms (tdRaw x tco)) init).tlen + 1)
      (declPre dco q al st fn (chainVal ms (tdRaw x tco)) init) = some (tdRaw x tco) := by
    have h1 : (declPre dco q al st fn (chainVal ms (tdRaw x tco)) init).isCls .TypeDecl = false := rfl
    have h2 : (declPre dco q al st fn (chainVal ms (tdRaw x tco)) init).getAttr "type" = some (chainVal ms (tdRaw x tco)) := rfl
    simp only [innerTypeDecl, h1, h2, Bool.false_eq_true, ↓reduceIte, Option.bind_some]
    exact innerTypeDecl_chain ms _ _ rfl (by simp only [declPre]; omega)
  have hdn : (tdRaw x tco).getAttr "declname" = some (.str x) := rfl
  have hset : (declPre dco q al st fn (chainVal ms (tdRaw x tco)) init).setAttr "name" (.str x) =
      some (declPost x dco q al st fn (chainVal ms (tdRaw x tco)) init) := rfl
  have hq : (declPost x dco q al st fn (chainVal ms (tdRaw x tco)) init).getAttr "quals" = some (.list q) := rfl
  have hF : ms.length < (declPre dco q al st fn (chainVal ms (tdRaw x tco)) init).tlen := by
    simp only [declPre]; omega
  have hm1 : mapInnerTypeDecl ((declPre dco q al st fn (chainVal ms (tdRaw x tco)) init).tlen + 1)
      (declPost x dco q al st fn (chainVal ms (tdRaw x tco)) init) (fun td => td.setAttr "quals" (.list q)) =
      some (declPost x dco q al st fn (chainVal ms (tdFull x tco q .none)) init) := by
    rw [declPost, mapInner_decl _ _ _ _ _ _ _ _ _ ms _ rfl _ hF]; rfl
  have hm2 : ∀ t, mapInnerTypeDecl ((declPre dco q al st fn (chainVal ms (tdRaw x tco)) init).tlen + 1)
      (declPost x dco q al st fn (chainVal ms (tdFull x tco q .none)) init) (fun td => td.setAttr "type" t) =
      some (declPost x dco q al st fn (chainVal ms (tdFull x tco q t)) init) := by
    intro t
    rw [declPost, mapInner_decl _ _ _ _ _ _ _ _ _ ms _ rfl _ hF]; rfl
  have hhead : valCoord ((typeNodes (p0 :: names)).head!) "typename[0].coord" s = .ok p0.2 s := rfl
  have hne : (typeNodes (p0 :: names)).isEmpty = false := rfl
  simp only [fixDeclNameType, DeclSkel.bnd, hinner, attrOrCrash_some, DeclSkel.pur, hdn, hset, hq, copyList, hm1,
    typeNodes_find, hne, Bool.false_eq_true, ↓reduceIte]
  rw [mapP_typeNodes _ (fun co n s => rfl)]
  simp only [hhead, flatten_singletons, hm2, attrOrCrash_some, DeclSkel.pur]
  simp [identType, Val.strs, Function.comp_def]

/-! ## `fix_atomic_specifiers` -/

/-- a finished declaration of the fragment: nothing for `fix_atomic_specifiers` to do -/
theorem fixAtomicSpecifiers_noop (x : String) (dco tco ico : Option Coord) (q al st fn : List Val) (ms : List M)
    (init : Val) (names : List String) (hq : (q.any fun v => v == Val.str "_Atomic") = false) (s : PState) :
    fixAtomicSpecifiers (declPost x dco q al st fn (chainVal ms (tdFull x tco q (identType ico names))) init) s =
      .ok (declPost x dco q al st fn (chainVal ms (tdFull x tco q (identType ico names))) init) s := by
  have hsz := decl_size dco (.str x) (.list q) (.list al) (.list st) (.list fn) _ init .none ms
    (tdFull x tco q (identType ico names)) rfl
  have hty : (declPost x dco q al st fn (chainVal ms (tdFull x tco q (identType ico names))) init).getAttr "type" =
      some (chainVal ms (tdFull x tco q (identType ico names))) := rfl
  have hpath : atomicPath ((declPost x dco q al st fn (chainVal ms (tdFull x tco q (identType ico names))) init).tlen + 1)
      (chainVal ms (tdFull x tco q (identType ico names)))
      [declPost x dco q al st fn (chainVal ms (tdFull x tco q (identType ico names))) init] = none :=
    atomicPath_chain x tco ico q names ms _ _ (by simp only [declPost]; omega)
  have honce : fixAtomicOnce (declPost x dco q al st fn (chainVal ms (tdFull x tco q (identType ico names))) init) s =
      .ok (declPost x dco q al st fn (chainVal ms (tdFull x tco q (identType ico names))) init, false) s := by
    simp only [fixAtomicOnce, DeclSkel.bnd, hty, attrOrCrash_some, DeclSkel.pur, hpath]
  have hloop : fixAtomicLoop ((declPost x dco q al st fn (chainVal ms (tdFull x tco q (identType ico names))) init).tlen + 1)
      (declPost x dco q al st fn (chainVal ms (tdFull x tco q (identType ico names))) init) s =
      .ok (declPost x dco q al st fn (chainVal ms (tdFull x tco q (identType ico names))) init) s := by
    simp only [fixAtomicLoop, DeclSkel.bnd, honce, Bool.false_eq_true, ↓reduceIte, DeclSkel.pur]
  have h1 : (declPost x dco q al st fn (chainVal ms (tdFull x tco q (identType ico names))) init).isCls .TypeDecl = false := rfl
  have hinner : innerTypeDecl ((declPost x dco q al st fn (chainVal ms (tdFull x tco q (identType ico names))) init).tlen + 1)
      (declPost x dco q al st fn (chainVal ms (tdFull x tco q (identType ico names))) init) =
      some (tdFull x tco q (identType ico names)) := by
    simp only [innerTypeDecl, h1, hty, Bool.false_eq_true, ↓reduceIte, Option.bind_some]
    exact innerTypeDecl_chain ms _ _ rfl (by simp only [declPost]; omega)
  have htq : (tdFull x tco q (identType ico names)).getAttr "quals" = some (.list q) := rfl
  have hdq : (declPost x dco q al st fn (chainVal ms (tdFull x tco q (identType ico names))) init).getAttr "quals" = some (.list q) := rfl
  have hdn : (tdFull x tco q (identType ico names)).getAttr "declname" = some (.str x) := rfl
  simp only [fixAtomicSpecifiers, DeclSkel.bnd, hloop, hinner, htq, hdq, attrOrCrash_some, DeclSkel.pur, listContainsStr, hq,
    Bool.false_eq_true, ↓reduceIte, hdn, Val.isNone]

/-! ## `_build_declarations` -/

/-- one init-declarator as `_parse_init_declarator` delivers it: a modifier chain around the
`TypeDecl` of the name, and an optional initializer -/
structure DI where
  ms : List M
  x : String
  tco : Option Coord
  init : Val

def DI.raw (d : DI) : Val := chainVal d.ms (tdRaw d.x d.tco)
def DI.info (d : DI) : DeclInfo := { decl := d.raw, init := d.init }
/-- the coordinate of a declaration is that of its outermost declarator node -/
def DI.coord (d : DI) : Option Coord := X.coordOfVal d.raw

theorem chain_isNode (ms : List M) (t : Val) (h : t.isNode = true) : (chainVal ms t).isNode = true := by
  cases ms with
  | nil => exact h
  | cons m ms => exact wrap_isNode m _

theorem DI.raw_isNode (d : DI) : d.raw.isNode = true := chain_isNode d.ms _ rfl

theorem chain_notSpecNode (ms : List M) (x : String) (co : Option Coord) :
    isInstance (chainVal ms (tdRaw x co)) [.Enum, .Struct, .Union, .IdentifierType] = false := by
  cases ms with
  | nil => rfl
  | cons m ms => cases m <;> rfl

/-- the `Decl` that `_build_declarations` returns for one declarator -/
def declOut (sp : DeclSpec) (ico : Option Coord) (names : List String) (d : DI) : Val :=
  declPost d.x d.coord sp.qual sp.alignment sp.storage sp.function
    (chainVal d.ms (tdFull d.x d.tco sp.qual (identType ico names))) d.init

/-- what the fragment asks of the specifiers: type specifiers are keywords / a typedef name (one
`IdentifierType` each, as `_parse_declaration_specifiers` builds them), no `typedef` storage class,
no `_Atomic` qualifier -/
structure SpecOK (sp : DeclSpec) (p0 : String × Option Coord) (names : List (String × Option Coord)) : Prop where
  type_eq : sp.type = typeNodes (p0 :: names)
  no_typedef : specHasTypedef sp = false
  no_atomic : (sp.qual.any fun v => v == Val.str "_Atomic") = false

/-- the specifier names in source order -/
def specNames (p0 : String × Option Coord) (names : List (String × Option Coord)) : List String :=
  (p0 :: names).map (·.1)

/-- one round of the declarator loop -/
theorem bdOne_ok (sp : DeclSpec) (p0 : String × Option Coord) (names : List (String × Option Coord))
    (hsp : SpecOK sp p0 names) (d : DI) (hty : env.ty d.x = false) (s : PState) (toks : List Tk) (hs : SeesT env s toks) :
    ∃ s', bdOne sp false true d.info sp.qual s = .ok (declOut sp p0.2 (specNames p0 names) d, sp.qual) s' ∧
      SeesT env s' toks ∧ s'.idx = s.idx := by
  unfold specNames
  obtain ⟨s', hadd, hs', hi, _⟩ := addIdentifier_spec s toks d.x d.coord hs hty
  refine ⟨s', ?_, hs', hi⟩
  have hnn : d.info.decl.isNone = false := by
    have := d.raw_isNode
    show d.raw.isNone = false
    cases h : d.raw <;> simp_all [Val.isNode, Val.isNone]
  have hco : ∀ st, valCoord d.info.decl "decl['decl'].coord" st = .ok d.coord st :=
    fun st => valCoord_node d.raw_isNode _ st
  have hinst : isInstance d.info.decl [.Enum, .Struct, .Union, .IdentifierType] = false := chain_notSpecNode _ _ _
  have hfix := fixDeclNameType_ok d.x d.coord d.tco sp.qual sp.alignment sp.storage sp.function d.ms d.init p0 names
  have hname : (declPost d.x d.coord sp.qual sp.alignment sp.storage sp.function
      (chainVal d.ms (tdFull d.x d.tco sp.qual (identType p0.2 ((p0 :: names).map (·.1))))) d.init).getAttr "name" = some (.str d.x) := rfl
  have hfco : ∀ st, valCoord (declPost d.x d.coord sp.qual sp.alignment sp.storage sp.function
      (chainVal d.ms (tdFull d.x d.tco sp.qual (identType p0.2 ((p0 :: names).map (·.1))))) d.init) "fixed_decl.coord" st = .ok d.coord st :=
    fun st => rfl
  have hatom := fixAtomicSpecifiers_noop d.x d.coord d.tco p0.2 sp.qual sp.alignment sp.storage sp.function d.ms d.init
    ((p0 :: names).map (·.1)) hsp.no_atomic
  have hquals : (declPost d.x d.coord sp.qual sp.alignment sp.storage sp.function
      (chainVal d.ms (tdFull d.x d.tco sp.qual (identType p0.2 ((p0 :: names).map (·.1))))) d.init).getAttr "quals" = some (.list sp.qual) := rfl
  have hpre : mk .Decl d.coord [.none, .list sp.qual, .list sp.alignment, .list sp.storage, .list sp.function,
      d.info.decl, d.info.init, d.info.bitsize] = declPre d.coord sp.qual sp.alignment sp.storage sp.function d.raw d.init := rfl
  simp only [bdOne, hnn, Bool.false_eq_true, ↓reduceIte, DeclSkel.bnd, hco, hinst, hpre, hsp.type_eq]
  simp only [DI.raw, hfix, hname, attrOrCrash_some, DeclSkel.pur, DeclSkel.bnd, hfco, hadd, hatom, hquals, declOut]

theorem bdLoop_ok (sp : DeclSpec) (p0 : String × Option Coord) (names : List (String × Option Coord))
    (hsp : SpecOK sp p0 names) : ∀ (ds : List DI) (acc : List Val) (s : PState) (toks : List Tk),
    (∀ d ∈ ds, env.ty d.x = false) → SeesT env s toks →
    ∃ s', bdLoop sp false true (ds.map DI.info) sp.qual acc s =
        .ok (sp.qual, acc ++ ds.map (declOut sp p0.2 (specNames p0 names))) s' ∧
      SeesT env s' toks ∧ s'.idx = s.idx
  | [], acc, s, toks, _, hs => ⟨s, by simp [bdLoop, DeclSkel.pur], hs, rfl⟩
  | d :: ds, acc, s, toks, hty, hs => by
    obtain ⟨s1, h1, hs1, hi1⟩ := bdOne_ok sp p0 names hsp d (hty d List.mem_cons_self) s toks hs
    obtain ⟨s2, h2, hs2, hi2⟩ := bdLoop_ok sp p0 names hsp ds (acc ++ [declOut sp p0.2 (specNames p0 names) d]) s1 toks
      (fun d' hd' => hty d' (List.mem_cons_of_mem _ hd')) hs1
    refine ⟨s2, ?_, hs2, by omega⟩
    simp only [List.map_cons, bdLoop, DeclSkel.bnd, h1]
    rw [h2]
    simp

theorem setQuals_declOut (sp : DeclSpec) (ico : Option Coord) (names : List String) (d : DI) :
    (declOut sp ico names d).setAttr "quals" (.list sp.qual) = some (declOut sp ico names d) := rfl

theorem mapP_setQuals (sp : DeclSpec) (ico : Option Coord) (names : List String) : ∀ (ds : List DI) (s : PState),
    mapP (fun d => attrOrCrash (d.setAttr "quals" (.list sp.qual)) "quals") (ds.map (declOut sp ico names)) s =
      .ok (ds.map (declOut sp ico names)) s
  | [], s => rfl
  | d :: ds, s => by
    simp only [List.map_cons, mapP, DeclSkel.bnd, setQuals_declOut, attrOrCrash_some, DeclSkel.pur, mapP_setQuals sp ico names ds]

/-- **`_build_declarations`**: one `Decl` per declarator, in source order, each with its own name and
modifier chain, all sharing the specifiers; every name registered as an ordinary identifier -/
theorem buildDeclarations_ok (sp : DeclSpec) (p0 : String × Option Coord) (names : List (String × Option Coord))
    (hsp : SpecOK sp p0 names) (d0 : DI) (ds : List DI) (hty : ∀ d ∈ d0 :: ds, env.ty d.x = false)
    (s : PState) (toks : List Tk) (hs : SeesT env s toks) :
    ∃ s', buildDeclarations sp ((d0 :: ds).map DI.info) true s =
        .ok ((d0 :: ds).map (declOut sp p0.2 (specNames p0 names))) s' ∧
      SeesT env s' toks ∧ s'.idx = s.idx := by
  obtain ⟨s1, h1, hs1, hi1⟩ := bdLoop_ok sp p0 names hsp (d0 :: ds) [] s toks hty hs
  refine ⟨s1, ?_, hs1, hi1⟩
  have hbs : d0.info.bitsize.isNone = true := rfl
  have hnn : d0.info.decl.isNone = false := by
    have := d0.raw_isNode
    show d0.raw.isNone = false
    cases h : d0.raw <;> simp_all [Val.isNode, Val.isNone]
  have hinst : isInstance d0.info.decl [.Enum, .Struct, .Union, .IdentifierType] = false := chain_notSpecNode _ _ _
  have hinner : innerTypeDecl (d0.info.decl.tlen + 1) d0.info.decl = some (tdRaw d0.x d0.tco) := by
    have := chain_size d0.ms (tdRaw d0.x d0.tco)
    exact innerTypeDecl_chain d0.ms _ _ rfl (by show d0.ms.length < (chainVal d0.ms (tdRaw d0.x d0.tco)).tlen + 1; omega)
  have hdn : (tdRaw d0.x d0.tco).getAttr "declname" = some (.str d0.x) := rfl
  have hfirst : bdFirstFix sp ((d0 :: ds).map DI.info) d0.info s = .ok (sp, (d0 :: ds).map DI.info) s := by
    have hsn : (Val.str d0.x).isNone = false := rfl
    simp only [bdFirstFix, hbs, Bool.not_true, Bool.false_eq_true, ↓reduceIte, hnn, hinst, Bool.not_false, DeclSkel.bnd, hinner,
      attrOrCrash_some, DeclSkel.pur, hdn, hsn]
  have hmap := mapP_setQuals sp p0.2 (specNames p0 names) (d0 :: ds) s1
  simp only [List.nil_append] at h1
  simp only [buildDeclarations, hsp.no_typedef, DeclSkel.bnd]
  simp only [List.map_cons] at hfirst h1 hmap ⊢
  simp only [DeclSkel.bnd, DeclSkel.pur, hfirst, h1, hmap]

/-! ## the same without registration (`typedef_namespace=False`: parameters, struct members) -/

theorem bdOne_noreg (sp : DeclSpec) (p0 : String × Option Coord) (names : List (String × Option Coord))
    (hsp : SpecOK sp p0 names) (d : DI) (s : PState) :
    bdOne sp false false d.info sp.qual s = .ok (declOut sp p0.2 (specNames p0 names) d, sp.qual) s := by
  unfold specNames
  have hnn : d.info.decl.isNone = false := by
    have := d.raw_isNode
    show d.raw.isNone = false
    cases h : d.raw <;> simp_all [Val.isNode, Val.isNone]
  have hco : ∀ st, valCoord d.info.decl "decl['decl'].coord" st = .ok d.coord st :=
    fun st => valCoord_node d.raw_isNode _ st
  have hinst : isInstance d.info.decl [.Enum, .Struct, .Union, .IdentifierType] = false := chain_notSpecNode _ _ _
  have hfix := fixDeclNameType_ok d.x d.coord d.tco sp.qual sp.alignment sp.storage sp.function d.ms d.init p0 names
  have hatom := fixAtomicSpecifiers_noop d.x d.coord d.tco p0.2 sp.qual sp.alignment sp.storage sp.function d.ms d.init
    ((p0 :: names).map (·.1)) hsp.no_atomic
  have hquals : (declPost d.x d.coord sp.qual sp.alignment sp.storage sp.function
      (chainVal d.ms (tdFull d.x d.tco sp.qual (identType p0.2 ((p0 :: names).map (·.1))))) d.init).getAttr "quals" = some (.list sp.qual) := rfl
  have hpre : mk .Decl d.coord [.none, .list sp.qual, .list sp.alignment, .list sp.storage, .list sp.function,
      d.info.decl, d.info.init, d.info.bitsize] = declPre d.coord sp.qual sp.alignment sp.storage sp.function d.raw d.init := rfl
  simp only [bdOne, hnn, Bool.false_eq_true, ↓reduceIte, DeclSkel.bnd, hco, hinst, hpre, hsp.type_eq]
  simp only [DI.raw, hfix, attrOrCrash_some, DeclSkel.pur, DeclSkel.bnd, hatom, hquals, declOut]

/-- `_build_declarations(spec, [decl], typedef_namespace=False)` for one declarator -/
theorem buildDeclarations_one_noreg (sp : DeclSpec) (p0 : String × Option Coord) (names : List (String × Option Coord))
    (hsp : SpecOK sp p0 names) (d0 : DI) (s : PState) :
    buildDeclarations sp [d0.info] false s = .ok [declOut sp p0.2 (specNames p0 names) d0] s := by
  have hbs : d0.info.bitsize.isNone = true := rfl
  have hnn : d0.info.decl.isNone = false := by
    have := d0.raw_isNode
    show d0.raw.isNone = false
    cases h : d0.raw <;> simp_all [Val.isNode, Val.isNone]
  have hinst : isInstance d0.info.decl [.Enum, .Struct, .Union, .IdentifierType] = false := chain_notSpecNode _ _ _
  have hinner : innerTypeDecl (d0.info.decl.tlen + 1) d0.info.decl = some (tdRaw d0.x d0.tco) := by
    have := chain_size d0.ms (tdRaw d0.x d0.tco)
    exact innerTypeDecl_chain d0.ms _ _ rfl (by show d0.ms.length < (chainVal d0.ms (tdRaw d0.x d0.tco)).tlen + 1; omega)
  have hdn : (tdRaw d0.x d0.tco).getAttr "declname" = some (.str d0.x) := rfl
  have hfirst : bdFirstFix sp [d0.info] d0.info s = .ok (sp, [d0.info]) s := by
    have hsn : (Val.str d0.x).isNone = false := rfl
    simp only [bdFirstFix, hbs, Bool.not_true, Bool.false_eq_true, ↓reduceIte, hnn, hinst, Bool.not_false, DeclSkel.bnd, hinner,
      attrOrCrash_some, DeclSkel.pur, hdn, hsn]
  have hone := bdOne_noreg sp p0 names hsp d0 s
  have hmap := mapP_setQuals sp p0.2 (specNames p0 names) [d0] s
  simp only [List.map_cons, List.map_nil] at hmap
  simp only [buildDeclarations, hsp.no_typedef, DeclSkel.bnd, DeclSkel.pur, hfirst, bdLoop, hone, List.nil_append, hmap]

end PycModel.BuildDecl
