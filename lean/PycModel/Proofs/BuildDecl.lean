import PycModel.Proofs.DeclSkel
/-!
# `_build_declarations` on declarations of keyword / typedef-name specifiers and named declarators

`_build_declarations` turns the declaration specifiers and the list of init-declarators into one
`Decl` node per declared name.  For every declaration of the fragment below (any number of
declarators, each a modifier chain of any length around the `TypeDecl` of the name; specifiers:
qualifiers, storage classes other than `typedef`, function specifiers, alignment specifiers, a
non-empty list of type keywords / one typedef name) this file proves what it returns:

* each declared name gets its own `Decl`, in source order, carrying the declared name, **all**
  specifier lists unchanged and in order, the declarator's modifier chain unchanged, and at the end
  of the chain the `TypeDecl` completed with the qualifiers and with one `IdentifierType` that
  lists the type-specifier names in source order (`_fix_decl_name_type`);
* `fix_atomic_specifiers` leaves such a declaration alone;
* each name is registered as an ordinary identifier in the current scope, which keeps the token
  view (the name must not be a typedef name of the static environment).
-/
namespace PycModel.BuildDecl
open PycModel PycModel.View PycModel.OperandId PycModel.FullExpr PycModel.TypeModify PycModel.DeclSkel

variable {env : Env}

/-! ## walking a modifier chain -/

theorem innerTypeDecl_chain : ∀ (ms : List M) (td : Val) (fuel : Nat), td.isCls .TypeDecl = true → ms.length < fuel →
    innerTypeDecl fuel (chainVal ms td) = some td
  | [], td, fuel, htd, hf => by
    obtain ⟨g, rfl⟩ : ∃ g, fuel = g + 1 := ⟨fuel - 1, by simp at hf; omega⟩
    simp [innerTypeDecl, chainVal, htd]
  | m :: ms, td, fuel, htd, hf => by
    obtain ⟨g, rfl⟩ : ∃ g, fuel = g + 1 := ⟨fuel - 1, by simp at hf; omega⟩
    simp only [innerTypeDecl, chainVal, wrap_notTypeDecl, Bool.false_eq_true, ↓reduceIte, wrap_getType, Option.bind_some]
    exact innerTypeDecl_chain ms td g htd (by simp at hf; omega)

theorem mapInnerTypeDecl_chain (f : Val → Option Val) : ∀ (ms : List M) (td : Val) (fuel : Nat),
    td.isCls .TypeDecl = true → ms.length < fuel →
    mapInnerTypeDecl fuel (chainVal ms td) f = (f td).map (chainVal ms)
  | [], td, fuel, htd, hf => by
    obtain ⟨g, rfl⟩ : ∃ g, fuel = g + 1 := ⟨fuel - 1, by simp at hf; omega⟩
    simp [mapInnerTypeDecl, chainVal, htd]
  | m :: ms, td, fuel, htd, hf => by
    obtain ⟨g, rfl⟩ : ∃ g, fuel = g + 1 := ⟨fuel - 1, by simp at hf; omega⟩
    simp only [mapInnerTypeDecl, chainVal, wrap_notTypeDecl, Bool.false_eq_true, ↓reduceIte, wrap_getType]
    rw [mapInnerTypeDecl_chain f ms td g htd (by simp at hf; omega)]
    cases f td with
    | none => rfl
    | some t' => simp [wrap_setType, chainVal]

/-- the completed `TypeDecl` -/
def tdFull (x : String) (co : Option Coord) (quals : List Val) (ty : Val) : Val :=
  mk .TypeDecl co [.str x, .list quals, .none, ty]

def identType (co : Option Coord) (names : List String) : Val := mk .IdentifierType co [Val.strs names]

theorem wrap_not_typename (m : M) (t : Val) : (m.wrap t).isCls .Typename = false := by cases m <;> rfl

/-- `fix_atomic_specifiers` finds no `_Atomic(...)` wrapper below a chain that ends in a completed
`TypeDecl` of an `IdentifierType` -/
theorem atomicPath_chain (x : String) (co ico : Option Coord) (quals : List Val) (names : List String) :
    ∀ (ms : List M) (fuel : Nat) (acc : List Val), ms.length + 2 ≤ fuel →
    atomicPath fuel (chainVal ms (tdFull x co quals (identType ico names))) acc = none
  | [], fuel, acc, hf => by
    obtain ⟨g, rfl⟩ : ∃ g, fuel = g + 2 := ⟨fuel - 2, by simp at hf; omega⟩
    simp [atomicPath, chainVal, tdFull, identType, mk, Val.isCls, Val.cls?, Val.getAttr, Val.fieldIdx, Val.fieldIdx.go,
      Cls.fields]
  | m :: ms, fuel, acc, hf => by
    obtain ⟨g, rfl⟩ : ∃ g, fuel = g + 1 := ⟨fuel - 1, by simp at hf; omega⟩
    have hnn : ∀ v, m.wrap v ≠ Val.none := by intro v; cases m <;> simp [M.wrap, mk]
    simp only [chainVal]
    unfold atomicPath
    split
    · rename_i h; exact absurd h (hnn _)
    · simp only [wrap_not_typename, Bool.false_and, Bool.false_eq_true, ↓reduceIte, wrap_getType]
      exact atomicPath_chain x co ico quals names ms g _ (by simp at hf; omega)

end PycModel.BuildDecl
