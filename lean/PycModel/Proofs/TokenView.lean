import PycModel.Parser.Stmt
/-!
# A token-level view of the parser state, with the specifications of `peek` and `advance`

`SeesT s toks`: the tokens the parser will obtain from state `s`, in order, are `toks` (class and
spelling) - first the buffered ones (`_TokenStream._buffer[_index:]`), then those still to be lexed.
For the part still to be lexed, lexing must be scope-neutral: no braces, no identifier that is
currently a typedef name (so the class is not rewritten to TYPEID and the scope stack stays as it is).
-/
namespace PycModel.View
open PycModel

abbrev Tk := String × String

def neutral (scopes : List Scope) (t : Tk) : Prop :=
  t.1 ≠ "LBRACE" ∧ t.1 ≠ "RBRACE" ∧ (t.1 = "ID" → isTypeInScopes scopes t.2 = false)

/-- `e`: the end-of-input marker (`None`) has already been lexed into the buffer -/
structure SeesT (s : PState) (toks : List Tk) : Prop where
  buffered : ∃ (bt : List PTok) (rt : List Tk) (e : Bool),
    s.buf.toList.drop s.idx = bt.map some ++ (if e then [none] else []) ∧
    s.raw = rt.map (fun t => SEv.tok t.1 t.2) ++ [.eof] ∧
    toks = bt.map (fun t => (t.kind, t.val)) ++ rt ∧
    (e = true → rt = []) ∧
    (∀ t ∈ rt, neutral s.scopes t) ∧
    (e = false → s.pulled = s.buf.size)
  idx_le : s.idx ≤ s.buf.size
  /-- a token's `idx` is its position in the buffer (= in the stripped event stream) -/
  pos : ∀ (j : Nat) (t : PTok), s.buf[j]? = some (some t) → t.idx = j

theorem bind_apply {α β} (m : P α) (f : α → P β) (s : PState) :
    (m >>= f) s = match m s with | .ok a s' => f a s' | .err e => .err e := rfl

/-- lexing one scope-neutral token -/
theorem lexToken_neutral (s : PState) (k v : String) (r : List SEv) (hr : s.raw = .tok k v :: r)
    (hn : neutral s.scopes (k, v)) :
    lexToken s = .ok (some ⟨k, v, s.pulled⟩)
      { s with raw := r, pulled := s.pulled + 1, fileRef := s.pulled + 1, lexCalls := s.lexCalls + 1 } := by
  obtain ⟨h1, h2, h3⟩ := hn
  simp only at h1 h2 h3
  unfold lexToken
  rw [hr]
  simp only
  simp [h1, h2]
  intro hid ht
  rw [h3 hid] at ht
  cases ht


theorem getElem?_of_drop_cons {α} {l : List α} {i : Nat} {x : α} {xs : List α}
    (h : l.drop i = x :: xs) : l[i]? = some x := by
  have := congrArg List.head? h
  simpa [List.head?_drop] using this

theorem drop_nil_size {α} {a : Array α} {i : Nat} (h : a.toList.drop i = []) (hle : i ≤ a.size) : i = a.size := by
  have := congrArg List.length h
  simp at this
  omega

theorem pos_push_some {buf : Array (Option PTok)} {tok : PTok}
    (hpos : ∀ (j : Nat) (t : PTok), buf[j]? = some (some t) → t.idx = j) (htok : tok.idx = buf.size) :
    ∀ (j : Nat) (t : PTok), (buf.push (some tok))[j]? = some (some t) → t.idx = j := by
  intro j t h
  rw [Array.getElem?_push] at h
  split at h
  · rename_i hj
    simp only [Option.some.injEq] at h
    subst h; omega
  · exact hpos j t h

theorem pos_push_none {buf : Array (Option PTok)}
    (hpos : ∀ (j : Nat) (t : PTok), buf[j]? = some (some t) → t.idx = j) :
    ∀ (j : Nat) (t : PTok), (buf.push none)[j]? = some (some t) → t.idx = j := by
  intro j t h
  rw [Array.getElem?_push] at h
  split at h
  · simp at h
  · exact hpos j t h

/-- `peek` on a state that sees at least one token: returns it (its index is the read position),
consumes nothing -/
theorem peek_spec (s : PState) (k v : String) (toks : List Tk) (h : SeesT s ((k, v) :: toks)) :
    ∃ s', peek s = .ok (some ⟨k, v, s.idx⟩) s' ∧ SeesT s' ((k, v) :: toks) ∧ s'.scopes = s.scopes ∧ s'.idx = s.idx := by
  obtain ⟨⟨bt, rt, e, hbuf, hraw, htoks, he, hneu, hpul⟩, hle, hpos⟩ := h
  cases bt with
  | cons t bt' =>
    simp only [List.map_cons, List.cons_append, List.cons.injEq, Prod.mk.injEq] at htoks
    obtain ⟨⟨hk, hv⟩, htl⟩ := htoks
    have hget : s.buf[s.idx]? = some (some t) := by
      rw [← Array.getElem?_toList]
      exact getElem?_of_drop_cons (xs := bt'.map some ++ (if e then [none] else [])) (by simpa using hbuf)
    have hlt : ¬ s.buf.size < s.idx + 1 := by
      have := (Array.getElem?_eq_some_iff.mp hget).1
      omega
    have hti := hpos _ _ hget
    refine ⟨{ s with ticks := s.ticks + 1 }, ?_, ⟨⟨t :: bt', rt, e, hbuf, hraw, ?_, he, hneu, hpul⟩, hle, hpos⟩, rfl, rfl⟩
    · simp only [peek, peekK, fill]
      simp [hlt, hget]
      cases t; simp_all
    · simp [hk, hv, htl]
  | nil =>
    simp only [List.map_nil, List.nil_append] at htoks hbuf
    subst htoks
    have he' : e = false := by cases e with | false => rfl | true => simp at he
    subst he'
    simp only [Bool.false_eq_true, ↓reduceIte] at hbuf
    have hsz := drop_nil_size hbuf hle
    have hp := hpul rfl
    simp only [List.map_cons, List.cons_append] at hraw
    have hn : neutral s.scopes (k, v) := hneu (k, v) (by simp)
    let s0 : PState := { s with ticks := s.ticks + 1 }
    have hlex := lexToken_neutral s0 k v _ hraw hn
    let tok : PTok := ⟨k, v, s.pulled⟩
    refine ⟨{ s0 with raw := toks.map (fun t => SEv.tok t.1 t.2) ++ [.eof], pulled := s.pulled + 1,
                       fileRef := s.pulled + 1, lexCalls := s.lexCalls + 1,
                       buf := s.buf.push (some tok) }, ?_,
            ⟨⟨[tok], toks, false, ?_, rfl, rfl, by simp, ?_, ?_⟩, ?_, ?_⟩, rfl, rfl⟩
    · have hlt : s0.buf.size < s0.idx + 1 := by show s.buf.size < s.idx + 1; omega
      have hfill : fill 1 1 { s with ticks := s.ticks + 1 } = .ok ()
          { s0 with raw := toks.map (fun t => SEv.tok t.1 t.2) ++ [.eof], pulled := s.pulled + 1,
                    fileRef := s.pulled + 1, lexCalls := s.lexCalls + 1, buf := s.buf.push (some tok) } := by
        show fill 1 1 s0 = _
        simp only [fill, hlt, ↓reduceIte, hlex]
        rfl
      show peekK 1 s = _
      unfold peekK
      simp only [show ((1 : Nat) == 0) = false from rfl, Bool.false_eq_true, ↓reduceIte]
      rw [hfill]
      simp [hsz, tok, s0, hp]
    · show (s.buf.push (some tok)).toList.drop s.idx = _
      simp [hsz]
    · intro t ht; exact hneu t (by simp [ht])
    · intro _; show s.pulled + 1 = (s.buf.push (some tok)).size; simp; omega
    · show s.idx ≤ (s.buf.push (some tok)).size
      simp; omega
    · exact pos_push_some hpos (by show s.pulled = s.buf.size; exact hp)

/-- `advance` on a state that sees at least one token: returns it and moves past it -/
theorem advance_spec (s : PState) (k v : String) (toks : List Tk) (h : SeesT s ((k, v) :: toks)) :
    ∃ s', advance s = .ok ⟨k, v, s.idx⟩ s' ∧ SeesT s' toks ∧ s'.scopes = s.scopes ∧ s'.idx = s.idx + 1 := by
  obtain ⟨⟨bt, rt, e, hbuf, hraw, htoks, he, hneu, hpul⟩, hle, hpos⟩ := h
  cases bt with
  | cons t bt' =>
    simp only [List.map_cons, List.cons_append, List.cons.injEq, Prod.mk.injEq] at htoks
    obtain ⟨⟨hk, hv⟩, htl⟩ := htoks
    have hget : s.buf[s.idx]? = some (some t) := by
      rw [← Array.getElem?_toList]
      exact getElem?_of_drop_cons (xs := bt'.map some ++ (if e then [none] else [])) (by simpa using hbuf)
    have hlt' : s.idx < s.buf.size := (Array.getElem?_eq_some_iff.mp hget).1
    have hlt : ¬ s.buf.size < s.idx + 1 := by omega
    have hti := hpos _ _ hget
    refine ⟨{ s with ticks := s.ticks + 1, idx := s.idx + 1 }, ?_,
      ⟨⟨bt', rt, e, ?_, hraw, htl, he, hneu, hpul⟩, ?_, hpos⟩, rfl, rfl⟩
    · simp only [advance, nextTok, fill, bind_apply]
      simp [hlt, hget]
      cases t; simp_all
      rfl
    · show s.buf.toList.drop (s.idx + 1) = _
      have : s.buf.toList.drop (s.idx + 1) = (s.buf.toList.drop s.idx).drop 1 := by
        rw [List.drop_drop]
      rw [this, hbuf]; simp
    · show s.idx + 1 ≤ s.buf.size; omega
  | nil =>
    simp only [List.map_nil, List.nil_append] at htoks hbuf
    subst htoks
    have he' : e = false := by cases e with | false => rfl | true => simp at he
    subst he'
    simp only [Bool.false_eq_true, ↓reduceIte] at hbuf
    have hsz := drop_nil_size hbuf hle
    have hp := hpul rfl
    simp only [List.map_cons, List.cons_append] at hraw
    have hn : neutral s.scopes (k, v) := hneu (k, v) (by simp)
    let s0 : PState := { s with ticks := s.ticks + 1 }
    have hlex := lexToken_neutral s0 k v _ hraw hn
    let tok : PTok := ⟨k, v, s.pulled⟩
    refine ⟨{ s0 with raw := toks.map (fun t => SEv.tok t.1 t.2) ++ [.eof], pulled := s.pulled + 1,
                       fileRef := s.pulled + 1, lexCalls := s.lexCalls + 1,
                       buf := s.buf.push (some tok), idx := s.idx + 1 }, ?_,
            ⟨⟨[], toks, false, ?_, rfl, rfl, by simp, ?_, ?_⟩, ?_, ?_⟩, rfl, rfl⟩
    · have hlt : s0.buf.size < s0.idx + 1 := by show s.buf.size < s.idx + 1; omega
      have hfill : fill 1 1 { s with ticks := s.ticks + 1 } = .ok ()
          { s0 with raw := toks.map (fun t => SEv.tok t.1 t.2) ++ [.eof], pulled := s.pulled + 1,
                    fileRef := s.pulled + 1, lexCalls := s.lexCalls + 1, buf := s.buf.push (some tok) } := by
        show fill 1 1 s0 = _
        simp only [fill, hlt, ↓reduceIte, hlex]
        rfl
      simp only [advance, nextTok, bind_apply]
      rw [hfill]
      simp [hsz, tok, s0, hp]
      rfl
    · show (s.buf.push (some tok)).toList.drop (s.idx + 1) = _
      simp [hsz]
    · intro t ht; exact hneu t (by simp [ht])
    · intro _; show s.pulled + 1 = (s.buf.push (some tok)).size; simp; omega
    · show s.idx + 1 ≤ (s.buf.push (some tok)).size
      simp; omega
    · exact pos_push_some hpos (by show s.pulled = s.buf.size; exact hp)

/-- `peek` at the end of the input returns `None` (and may record the end marker) -/
theorem peek_end (s : PState) (h : SeesT s []) :
    ∃ s', peek s = .ok none s' ∧ SeesT s' [] ∧ s'.scopes = s.scopes ∧ s'.idx = s.idx := by
  obtain ⟨⟨bt, rt, e, hbuf, hraw, htoks, he, hneu, hpul⟩, hle, hpos⟩ := h
  have hbt : bt = [] := by cases bt with | nil => rfl | cons _ _ => simp at htoks
  have hrt : rt = [] := by cases rt with | nil => rfl | cons _ _ => simp [hbt] at htoks
  subst hbt hrt
  simp only [List.map_nil, List.nil_append] at hbuf hraw
  cases e with
  | true =>
    simp only [↓reduceIte] at hbuf
    have hget : s.buf[s.idx]? = some none := by
      rw [← Array.getElem?_toList]
      exact getElem?_of_drop_cons hbuf
    have hlt : ¬ s.buf.size < s.idx + 1 := by
      have := (Array.getElem?_eq_some_iff.mp hget).1
      omega
    refine ⟨{ s with ticks := s.ticks + 1 }, ?_,
      ⟨⟨[], [], true, by simpa using hbuf, by simpa using hraw, rfl, by simp, by simp, by simp⟩, hle, hpos⟩, rfl, rfl⟩
    simp only [peek, peekK, fill]
    simp [hlt, hget]
  | false =>
    simp only [Bool.false_eq_true, ↓reduceIte] at hbuf
    have hsz := drop_nil_size hbuf hle
    let s0 : PState := { s with ticks := s.ticks + 1 }
    have hlex : lexToken s0 = .ok none { s0 with fileRef := s0.pulled + 1, lexCalls := s0.lexCalls + 1 } := by
      unfold lexToken
      show (match s.raw with | [] => _ | .eof :: _ => _ | .stuck :: _ => _ | .err :: _ => _ | .tok k v :: r => _) = _
      rw [hraw]
    have hlt : s0.buf.size < s0.idx + 1 := by show s.buf.size < s.idx + 1; omega
    have hfill : fill 1 1 { s with ticks := s.ticks + 1 } = .ok ()
        { s0 with fileRef := s.pulled + 1, lexCalls := s.lexCalls + 1, buf := s.buf.push none } := by
      show fill 1 1 s0 = _
      simp only [fill, hlt, ↓reduceIte, hlex]
      rfl
    refine ⟨{ s0 with fileRef := s.pulled + 1, lexCalls := s.lexCalls + 1, buf := s.buf.push none }, ?_,
      ⟨⟨[], [], true, ?_, by simpa using hraw, rfl, by simp, by simp, by simp⟩, ?_, pos_push_none hpos⟩, rfl, rfl⟩
    · show peekK 1 s = _
      unfold peekK
      simp only [show ((1 : Nat) == 0) = false from rfl, Bool.false_eq_true, ↓reduceIte]
      rw [hfill]
      simp [hsz, s0]
    · show (s.buf.push none).toList.drop s.idx = _
      simp [hsz]
    · show s.idx ≤ (s.buf.push none).size
      simp; omega

end PycModel.View
