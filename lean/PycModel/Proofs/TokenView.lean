import PycModel.Parser.Stmt
/-!
# A token-level view of the parser state, with the specifications of `peek` and `advance`

`SeesT ty s toks`: the tokens the parser will obtain from state `s`, in order, are `toks` (class and
spelling) - first the buffered ones (`_TokenStream._buffer[_index:]`), then those still to be lexed.
The scope stack must describe a *static* typedef environment (`Stable`): no name is declared both
as a type and as an object, and every type name lives in the outermost scope.  Then an identifier
is rewritten to TYPEID exactly when it is one of those type names, whatever braces are lexed on the
way (they push and pop scopes at lex time).
-/
namespace PycModel.View
open PycModel

abbrev Tk := String × String

/-- what stays fixed while a translation unit is parsed: which identifiers are type names (`ty`),
and the whole token sequence as the parser will see it (`all`, classes as the lexer assigns them) -/
structure Env where
  ty : String → Bool
  all : List Tk

/-- the class the lexer gives a raw token when `ty` says which identifiers are type names -/
def clsF (ty : String → Bool) (t : Tk) : Tk :=
  (if t.1 == "ID" && ty t.2 then "TYPEID" else t.1, t.2)

/-- the scope stack describes the *static* typedef environment `ty`: every entry of every scope
says what `ty` says (no name is declared both ways), and the outermost scope holds every type
name (so no type name goes out of scope when a block closes) -/
def Agrees (ty : String → Bool) (scopes : List Scope) : Prop :=
  (∀ sc ∈ scopes, ∀ e ∈ sc, e.2 = ty e.1) ∧
  (∃ init last, scopes = init ++ [last] ∧ ∀ n, ty n = true → scopeLookup last n = some true)

theorem scopeLookup_mem {sc : Scope} {n : String} {b : Bool} (h : scopeLookup sc n = some b) : (n, b) ∈ sc := by
  simp only [scopeLookup, Option.map_eq_some_iff] at h
  obtain ⟨e, he, rfl⟩ := h
  have h1 := List.find?_some he
  have : e.1 = n := by simpa using h1
  have hm := List.mem_of_find?_eq_some he
  cases e; simp_all

/-- under `Agrees`, `_is_type_in_scope` computes `ty` -/
theorem Agrees.lookup {ty : String → Bool} {scopes : List Scope} (h : Agrees ty scopes) (n : String) :
    isTypeInScopes scopes n = ty n := by
  obtain ⟨hall, init, last, rfl, hlast⟩ := h
  induction init with
  | nil =>
    simp only [List.nil_append, isTypeInScopes]
    cases hl : scopeLookup last n with
    | some b => exact hall last (by simp) (n, b) (scopeLookup_mem hl)
    | none =>
      cases ht : ty n with
      | false => rfl
      | true => rw [hlast n ht] at hl; cases hl
  | cons a init ih =>
    simp only [List.cons_append, isTypeInScopes]
    cases hl : scopeLookup a n with
    | some b => exact hall a (by simp) (n, b) (scopeLookup_mem hl)
    | none => exact ih (fun sc hsc => hall sc (by simp only [List.cons_append, List.mem_cons]; exact .inr hsc))

theorem Agrees.funext {ty : String → Bool} {scopes : List Scope} (h : Agrees ty scopes) :
    isTypeInScopes scopes = ty := _root_.funext h.lookup

/-- what lexing a token of class `k` does to the scope stack (`on_lbrace_func` / `on_rbrace_func`) -/
def lexScopes (k : String) (scopes : List Scope) : List Scope :=
  if k == "LBRACE" then [] :: scopes
  else if k == "RBRACE" then (match scopes with | _ :: b :: rest => b :: rest | sc => sc)
  else scopes

theorem Agrees.lex {ty : String → Bool} {scopes : List Scope} (h : Agrees ty scopes) (k : String) :
    Agrees ty (lexScopes k scopes) := by
  unfold lexScopes
  split
  · obtain ⟨hall, init, last, rfl, hlast⟩ := h
    refine ⟨?_, [] :: init, last, rfl, hlast⟩
    intro sc hsc; simp only [List.mem_cons] at hsc
    rcases hsc with rfl | hsc
    · intro e he; simp at he
    · exact hall sc hsc
  · split
    · split
      · rename_i a b rest
        obtain ⟨hall, init, last, heq, hlast⟩ := h
        refine ⟨fun sc hsc => hall sc (by simp only [List.mem_cons] at hsc ⊢; rcases hsc with h' | h' <;> simp [h']), ?_⟩
        cases init with
        | nil => simp at heq
        | cons a' init' =>
          simp only [List.cons_append, List.cons.injEq] at heq
          exact ⟨init', last, heq.2, hlast⟩
      · exact h
    · exact h

/-- `e`: the end-of-input marker (`None`) has already been lexed into the buffer.
`rt` are the tokens still to be lexed, as the scanner delivers them (every identifier `ID`);
`toks` shows them with the class the lexer callback will give them (`TYPEID` for type names). -/
structure SeesT (env : Env) (s : PState) (toks : List Tk) : Prop where
  buffered : ∃ (bt : List PTok) (rt : List Tk) (e : Bool),
    s.buf.toList.drop s.idx = bt.map some ++ (if e then [none] else []) ∧
    s.raw = rt.map (fun t => SEv.tok t.1 t.2) ++ [.eof] ∧
    toks = bt.map (fun t => (t.kind, t.val)) ++ rt.map (clsF env.ty) ∧
    (e = true → rt = []) ∧
    Agrees env.ty s.scopes ∧
    (e = false → s.pulled = s.buf.size)
  idx_le : s.idx ≤ s.buf.size
  /-- a token's `idx` is its position in the buffer (= in the stripped event stream) -/
  pos : ∀ (j : Nat) (t : PTok), s.buf[j]? = some (some t) → t.idx = j
  /-- the tokens already consumed, followed by `toks`, are the whole input -/
  hist : ∃ ht : List PTok, s.buf.toList.take s.idx = ht.map some ∧
    env.all = ht.map (fun t => (t.kind, t.val)) ++ toks

theorem bind_apply {α β} (m : P α) (f : α → P β) (s : PState) :
    (m >>= f) s = match m s with | .ok a s' => f a s' | .err e => .err e := rfl

/-- lexing one token: identifiers are classified by the scope stack as it is now -/
theorem lexToken_tok {ty : String → Bool} (s : PState) (k v : String) (r : List SEv) (hr : s.raw = .tok k v :: r)
    (hty : isTypeInScopes s.scopes = ty) :
    lexToken s = .ok (some ⟨(clsF ty (k, v)).1, v, s.pulled⟩)
      { s with raw := r, pulled := s.pulled + 1, fileRef := s.pulled + 1, lexCalls := s.lexCalls + 1,
               scopes := lexScopes k s.scopes } := by
  subst hty
  unfold lexToken
  rw [hr]
  simp only [clsF]
  unfold lexScopes
  by_cases h1 : k = "LBRACE"
  · subst h1; simp
  · by_cases h2 : k = "RBRACE"
    · subst h2
      cases hs : s.scopes with
      | nil => simp [hs]
      | cons a t => cases t <;> simp [hs]
    · simp [h1, h2]

variable {env : Env}

theorem SeesT.agrees {s : PState} {toks : List Tk} (h : SeesT env s toks) : Agrees env.ty s.scopes := by
  obtain ⟨⟨_, _, _, _, _, _, _, hn, _⟩, _, _, _⟩ := h
  exact hn


theorem take_push_le {α} (a : Array α) (x : α) (i : Nat) (h : i ≤ a.size) :
    (a.push x).toList.take i = a.toList.take i := by
  simp only [Array.toList_push]
  exact List.take_append_of_le_length (by simpa using h)

theorem take_succ_of_get {α} {l : List α} {i : Nat} {x : α} (h : l[i]? = some x) :
    l.take (i + 1) = l.take i ++ [x] := by
  rw [List.take_succ, h]; rfl

theorem getElem?_of_drop_cons {α} {l : List α} {i : Nat} {x : α} {xs : List α}
    (h : l.drop i = x :: xs) : l[i]? = some x := by
  have := congrArg List.head? h
  simpa [List.head?_drop] using this

theorem drop_nil_size {α} {a : Array α} {i : Nat} (h : a.toList.drop i = []) (hle : i ≤ a.size) : i = a.size := by
  have := congrArg List.length h
  simp at this
  omega

/-- the buffer only grows: everything already buffered stays where it is -/
def BufExt (s s' : PState) : Prop := ∀ j, j < s.buf.size → s'.buf[j]? = s.buf[j]?

theorem BufExt.refl_ticks (s : PState) (f : PState → PState) (h : (f s).buf = s.buf) : BufExt s (f s) := by
  intro j _; rw [h]

theorem BufExt.trans {a b c : PState} (h1 : BufExt a b) (h2 : BufExt b c) (hs : a.buf.size ≤ b.buf.size) :
    BufExt a c := fun j hj => (h2 j (by omega)).trans (h1 j hj)

theorem bufExt_push (s : PState) (x : Option PTok) (s' : PState) (h : s'.buf = s.buf.push x) : BufExt s s' := by
  intro j hj
  rw [h, Array.getElem?_push]
  simp [Nat.ne_of_lt hj]

theorem pos_push_some {buf : Array (Option PTok)} {tok : PTok}
    (hpos : ∀ (j : Nat) (t : PTok), buf[j]? = some (some t) → t.idx = j) (htok : tok.idx = buf.size) :
    ∀ (j : Nat) (t : PTok), (buf.push (some tok))[j]? = some (some t) → t.idx = j := by
  intro j t h
  rw [Array.getElem?_push] at h
  split at h
  · rename_i hj
    simp only [Option.some.injEq] at h
    subst h; omega
  · exact hpos j t h

theorem pos_push_none {buf : Array (Option PTok)}
    (hpos : ∀ (j : Nat) (t : PTok), buf[j]? = some (some t) → t.idx = j) :
    ∀ (j : Nat) (t : PTok), (buf.push none)[j]? = some (some t) → t.idx = j := by
  intro j t h
  rw [Array.getElem?_push] at h
  split at h
  · simp at h
  · exact hpos j t h

/-- `peek` on a state that sees at least one token: returns it (its index is the read position),
consumes nothing -/
theorem peek_spec (s : PState) (k v : String) (toks : List Tk) (h : SeesT env s ((k, v) :: toks)) :
    ∃ s', peek s = .ok (some ⟨k, v, s.idx⟩) s' ∧ SeesT env s' ((k, v) :: toks) ∧ isTypeInScopes s'.scopes = env.ty ∧ s'.idx = s.idx ∧
      BufExt s s' ∧ s.buf.size ≤ s'.buf.size := by
  obtain ⟨⟨bt, rt, e, hbuf, hraw, htoks, he, hneu, hpul⟩, hle, hpos, hhist⟩ := h
  obtain ⟨ht, hht, hall⟩ := hhist
  cases bt with
  | cons t bt' =>
    simp only [List.map_cons, List.cons_append, List.cons.injEq, Prod.mk.injEq] at htoks
    obtain ⟨⟨hk, hv⟩, htl⟩ := htoks
    have hget : s.buf[s.idx]? = some (some t) := by
      rw [← Array.getElem?_toList]
      exact getElem?_of_drop_cons (xs := bt'.map some ++ (if e then [none] else [])) (by simpa using hbuf)
    have hlt : ¬ s.buf.size < s.idx + 1 := by
      have := (Array.getElem?_eq_some_iff.mp hget).1
      omega
    have hti := hpos _ _ hget
    refine ⟨{ s with ticks := s.ticks + 1 }, ?_, ⟨⟨t :: bt', rt, e, hbuf, hraw, ?_, he, hneu, hpul⟩, hle, hpos, ⟨ht, hht, hall⟩⟩, hneu.funext, rfl, fun j _ => rfl, Nat.le_refl _⟩
    · simp only [peek, peekK, fill]
      simp [hlt, hget]
      cases t; simp_all
    · simp [hk, hv, htl]
  | nil =>
    simp only [List.map_nil, List.nil_append] at htoks hbuf
    cases rt with
    | nil => simp at htoks
    | cons t0 rt' =>
    obtain ⟨k0, v0⟩ := t0
    simp only [List.map_cons, List.cons.injEq] at htoks
    obtain ⟨hkv, htl⟩ := htoks
    have hv : v = v0 := congrArg Prod.snd hkv
    have hk : k = (clsF env.ty (k0, v0)).1 := congrArg Prod.fst hkv
    subst hv
    subst hk
    have he' : e = false := by cases e with | false => rfl | true => simp at he
    subst he'
    simp only [Bool.false_eq_true, ↓reduceIte] at hbuf
    have hsz := drop_nil_size hbuf hle
    have hp := hpul rfl
    simp only [List.map_cons, List.cons_append] at hraw
    let s0 : PState := { s with ticks := s.ticks + 1 }
    have hlex := lexToken_tok s0 k0 v _ hraw (show isTypeInScopes s0.scopes = env.ty from hneu.funext)
    have hst := hneu.lex k0
    let tok : PTok := ⟨(clsF env.ty (k0, v)).1, v, s.pulled⟩
    refine ⟨{ s0 with raw := rt'.map (fun t => SEv.tok t.1 t.2) ++ [.eof], pulled := s.pulled + 1,
                       fileRef := s.pulled + 1, lexCalls := s.lexCalls + 1,
                       buf := s.buf.push (some tok), scopes := lexScopes k0 s.scopes }, ?_,
            ⟨⟨[tok], rt', false, ?_, rfl, ?_, by simp, hst, ?_⟩, ?_, ?_, ⟨ht, by show (s.buf.push (some tok)).toList.take s.idx = _; rw [take_push_le _ _ _ hle]; exact hht, hall⟩⟩, hst.funext, rfl, bufExt_push s _ _ rfl, by simp⟩
    · have hlt : s0.buf.size < s0.idx + 1 := by show s.buf.size < s.idx + 1; omega
      have hfill : fill 1 1 { s with ticks := s.ticks + 1 } = .ok ()
          { s0 with raw := rt'.map (fun t => SEv.tok t.1 t.2) ++ [.eof], pulled := s.pulled + 1,
                    fileRef := s.pulled + 1, lexCalls := s.lexCalls + 1, buf := s.buf.push (some tok),
                    scopes := lexScopes k0 s.scopes } := by
        show fill 1 1 s0 = _
        simp only [fill, hlt, ↓reduceIte, hlex]
        rfl
      show peekK 1 s = _
      unfold peekK
      simp only [show ((1 : Nat) == 0) = false from rfl, Bool.false_eq_true, ↓reduceIte]
      rw [hfill]
      simp [hsz, tok, s0, hp]
    · show (s.buf.push (some tok)).toList.drop s.idx = _
      simp [hsz]
    · show _ :: toks = [tok].map (fun t => (t.kind, t.val)) ++ rt'.map (clsF env.ty)
      rw [htl]; rfl
    · intro _; show s.pulled + 1 = (s.buf.push (some tok)).size; simp; omega
    · show s.idx ≤ (s.buf.push (some tok)).size
      simp; omega
    · exact pos_push_some hpos (by show s.pulled = s.buf.size; exact hp)

/-- `advance` on a state that sees at least one token: returns it and moves past it -/
theorem advance_spec (s : PState) (k v : String) (toks : List Tk) (h : SeesT env s ((k, v) :: toks)) :
    ∃ s', advance s = .ok ⟨k, v, s.idx⟩ s' ∧ SeesT env s' toks ∧ isTypeInScopes s'.scopes = env.ty ∧ s'.idx = s.idx + 1 ∧
      BufExt s s' ∧ s.buf.size ≤ s'.buf.size ∧ s'.buf[s.idx]? = some (some ⟨k, v, s.idx⟩) := by
  obtain ⟨⟨bt, rt, e, hbuf, hraw, htoks, he, hneu, hpul⟩, hle, hpos, hhist⟩ := h
  obtain ⟨ht, hht, hall⟩ := hhist
  cases bt with
  | cons t bt' =>
    simp only [List.map_cons, List.cons_append, List.cons.injEq, Prod.mk.injEq] at htoks
    obtain ⟨⟨hk, hv⟩, htl⟩ := htoks
    have hget : s.buf[s.idx]? = some (some t) := by
      rw [← Array.getElem?_toList]
      exact getElem?_of_drop_cons (xs := bt'.map some ++ (if e then [none] else [])) (by simpa using hbuf)
    have hlt' : s.idx < s.buf.size := (Array.getElem?_eq_some_iff.mp hget).1
    have hlt : ¬ s.buf.size < s.idx + 1 := by omega
    have hti := hpos _ _ hget
    refine ⟨{ s with ticks := s.ticks + 1, idx := s.idx + 1 }, ?_,
      ⟨⟨bt', rt, e, ?_, hraw, htl, he, hneu, hpul⟩, ?_, hpos, ⟨ht ++ [t], by show s.buf.toList.take (s.idx + 1) = _; rw [take_succ_of_get (by rw [Array.getElem?_toList]; exact hget), hht]; simp, by rw [hall]; simp [hk, hv]⟩⟩, hneu.funext, rfl, fun j _ => rfl, Nat.le_refl _, ?_⟩
    · simp only [advance, nextTok, fill, bind_apply]
      simp [hlt, hget]
      cases t; simp_all
      rfl
    · show s.buf.toList.drop (s.idx + 1) = _
      have : s.buf.toList.drop (s.idx + 1) = (s.buf.toList.drop s.idx).drop 1 := by
        rw [List.drop_drop]
      rw [this, hbuf]; simp
    · show s.idx + 1 ≤ s.buf.size; omega
    · show s.buf[s.idx]? = _
      rw [hget]; cases t; simp_all
  | nil =>
    simp only [List.map_nil, List.nil_append] at htoks hbuf
    cases rt with
    | nil => simp at htoks
    | cons t0 rt' =>
    obtain ⟨k0, v0⟩ := t0
    simp only [List.map_cons, List.cons.injEq] at htoks
    obtain ⟨hkv, htl⟩ := htoks
    have hv : v = v0 := congrArg Prod.snd hkv
    have hk : k = (clsF env.ty (k0, v0)).1 := congrArg Prod.fst hkv
    subst hv
    subst hk
    have he' : e = false := by cases e with | false => rfl | true => simp at he
    subst he'
    simp only [Bool.false_eq_true, ↓reduceIte] at hbuf
    have hsz := drop_nil_size hbuf hle
    have hp := hpul rfl
    simp only [List.map_cons, List.cons_append] at hraw
    let s0 : PState := { s with ticks := s.ticks + 1 }
    have hlex := lexToken_tok s0 k0 v _ hraw (show isTypeInScopes s0.scopes = env.ty from hneu.funext)
    have hst := hneu.lex k0
    let tok : PTok := ⟨(clsF env.ty (k0, v)).1, v, s.pulled⟩
    refine ⟨{ s0 with raw := rt'.map (fun t => SEv.tok t.1 t.2) ++ [.eof], pulled := s.pulled + 1,
                       fileRef := s.pulled + 1, lexCalls := s.lexCalls + 1,
                       buf := s.buf.push (some tok), idx := s.idx + 1, scopes := lexScopes k0 s.scopes }, ?_,
            ⟨⟨[], rt', false, ?_, rfl, ?_, by simp, hst, ?_⟩, ?_, ?_, ⟨ht ++ [tok], by show (s.buf.push (some tok)).toList.take (s.idx + 1) = _; rw [take_succ_of_get (x := some tok) (by simp [hsz]), take_push_le _ _ _ hle, hht]; simp, by rw [hall]; simp [tok]⟩⟩, hst.funext, rfl, bufExt_push s _ _ rfl, by simp, ?_⟩
    · have hlt : s0.buf.size < s0.idx + 1 := by show s.buf.size < s.idx + 1; omega
      have hfill : fill 1 1 { s with ticks := s.ticks + 1 } = .ok ()
          { s0 with raw := rt'.map (fun t => SEv.tok t.1 t.2) ++ [.eof], pulled := s.pulled + 1,
                    fileRef := s.pulled + 1, lexCalls := s.lexCalls + 1, buf := s.buf.push (some tok),
                    scopes := lexScopes k0 s.scopes } := by
        show fill 1 1 s0 = _
        simp only [fill, hlt, ↓reduceIte, hlex]
        rfl
      simp only [advance, nextTok, bind_apply]
      rw [hfill]
      simp [hsz, tok, s0, hp]
      rfl
    · show (s.buf.push (some tok)).toList.drop (s.idx + 1) = _
      simp [hsz]
    · show toks = ([] : List PTok).map (fun t => (t.kind, t.val)) ++ rt'.map (clsF env.ty)
      rw [htl]; rfl
    · intro _; show s.pulled + 1 = (s.buf.push (some tok)).size; simp; omega
    · show s.idx + 1 ≤ (s.buf.push (some tok)).size
      simp; omega
    · exact pos_push_some hpos (by show s.pulled = s.buf.size; exact hp)
    · show (s.buf.push (some tok))[s.idx]? = _
      simp [hsz, tok, hp]

/-- `peek` at the end of the input returns `None` (and may record the end marker) -/
theorem peek_end (s : PState) (h : SeesT env s []) :
    ∃ s', peek s = .ok none s' ∧ SeesT env s' [] ∧ isTypeInScopes s'.scopes = env.ty ∧ s'.idx = s.idx ∧
      BufExt s s' ∧ s.buf.size ≤ s'.buf.size := by
  obtain ⟨⟨bt, rt, e, hbuf, hraw, htoks, he, hneu, hpul⟩, hle, hpos, hhist⟩ := h
  obtain ⟨ht, hht, hall⟩ := hhist
  have hbt : bt = [] := by cases bt with | nil => rfl | cons _ _ => simp at htoks
  have hrt : rt = [] := by cases rt with | nil => rfl | cons _ _ => simp [hbt] at htoks
  subst hbt hrt
  simp only [List.map_nil, List.nil_append] at hbuf hraw
  cases e with
  | true =>
    simp only [↓reduceIte] at hbuf
    have hget : s.buf[s.idx]? = some none := by
      rw [← Array.getElem?_toList]
      exact getElem?_of_drop_cons hbuf
    have hlt : ¬ s.buf.size < s.idx + 1 := by
      have := (Array.getElem?_eq_some_iff.mp hget).1
      omega
    refine ⟨{ s with ticks := s.ticks + 1 }, ?_,
      ⟨⟨[], [], true, by simpa using hbuf, by simpa using hraw, rfl, by simp, hneu, by simp⟩, hle, hpos, ⟨ht, hht, hall⟩⟩, hneu.funext, rfl, fun j _ => rfl, Nat.le_refl _⟩
    simp only [peek, peekK, fill]
    simp [hlt, hget]
  | false =>
    simp only [Bool.false_eq_true, ↓reduceIte] at hbuf
    have hsz := drop_nil_size hbuf hle
    let s0 : PState := { s with ticks := s.ticks + 1 }
    have hlex : lexToken s0 = .ok none { s0 with fileRef := s0.pulled + 1, lexCalls := s0.lexCalls + 1 } := by
      unfold lexToken
      show (match s.raw with | [] => _ | .eof :: _ => _ | .stuck :: _ => _ | .err :: _ => _ | .tok k v :: r => _) = _
      rw [hraw]
    have hlt : s0.buf.size < s0.idx + 1 := by show s.buf.size < s.idx + 1; omega
    have hfill : fill 1 1 { s with ticks := s.ticks + 1 } = .ok ()
        { s0 with fileRef := s.pulled + 1, lexCalls := s.lexCalls + 1, buf := s.buf.push none } := by
      show fill 1 1 s0 = _
      simp only [fill, hlt, ↓reduceIte, hlex]
      rfl
    refine ⟨{ s0 with fileRef := s.pulled + 1, lexCalls := s.lexCalls + 1, buf := s.buf.push none }, ?_,
      ⟨⟨[], [], true, ?_, by simpa using hraw, rfl, by simp, hneu, by simp⟩, ?_, pos_push_none hpos, ⟨ht, by show (s.buf.push none).toList.take s.idx = _; rw [take_push_le _ _ _ hle]; exact hht, hall⟩⟩, hneu.funext, rfl, bufExt_push s _ _ rfl, by simp⟩
    · show peekK 1 s = _
      unfold peekK
      simp only [show ((1 : Nat) == 0) = false from rfl, Bool.false_eq_true, ↓reduceIte]
      rw [hfill]
      simp [hsz, s0]
    · show (s.buf.push none).toList.drop s.idx = _
      simp [hsz]
    · show s.idx ≤ (s.buf.push none).size
      simp; omega


/-! ## looking further ahead, and going back -/

/-- `_fill(n)` when at least `n` tokens are still to come: buffers them, changes nothing else -/
theorem fill_spec : ∀ (fuel n : Nat) (s : PState) (toks : List Tk), SeesT env s toks → n ≤ toks.length →
    n ≤ fuel + (s.buf.size - s.idx) →
    ∃ s', fill fuel n s = .ok () s' ∧ SeesT env s' toks ∧ isTypeInScopes s'.scopes = env.ty ∧ s'.idx = s.idx ∧
      BufExt s s' ∧ s.buf.size ≤ s'.buf.size ∧ s.idx + n ≤ s'.buf.size ∧ s'.ticks = s.ticks := by
  intro fuel
  induction fuel with
  | zero =>
    intro n s toks h hn hf
    refine ⟨s, rfl, h, h.agrees.funext, rfl, fun _ _ => rfl, Nat.le_refl _, ?_, rfl⟩
    have := h.idx_le; omega
  | succ fuel ih =>
    intro n s toks h hn hf
    by_cases hlt : s.buf.size < s.idx + n
    · obtain ⟨⟨bt, rt, e, hbuf, hraw, htoks, he, hneu, hpul⟩, hle, hpos, hhist⟩ := h
      obtain ⟨ht, hht, hall⟩ := hhist
      have hlen : (s.buf.toList.drop s.idx).length = s.buf.size - s.idx := by simp
      have hbl : bt.length + (if e then 1 else 0) = s.buf.size - s.idx := by
        rw [← hlen, hbuf]; cases e <;> simp
      have htl : toks.length = bt.length + rt.length := by rw [htoks]; simp
      -- the end marker cannot be buffered yet, and a token is still to be lexed
      have he' : e = false := by
        cases e with
        | false => rfl
        | true => have := he rfl; subst this; simp at hbl htl; omega
      subst he'
      simp only [Bool.false_eq_true, ↓reduceIte, Nat.add_zero, List.append_nil] at hbl hbuf
      cases rt with
      | nil => simp at htl; omega
      | cons t rt' =>
        obtain ⟨k, v⟩ := t
        have hp := hpul rfl
        simp only [List.map_cons, List.cons_append] at hraw
        have hlex := lexToken_tok s k v _ hraw hneu.funext
        have hst := hneu.lex k
        let tok : PTok := ⟨(clsF env.ty (k, v)).1, v, s.pulled⟩
        let s1 : PState := { s with raw := rt'.map (fun t => SEv.tok t.1 t.2) ++ [.eof], pulled := s.pulled + 1,
                                    fileRef := s.pulled + 1, lexCalls := s.lexCalls + 1, buf := s.buf.push (some tok),
                                    scopes := lexScopes k s.scopes }
        have hs1 : SeesT env s1 toks := by
          refine ⟨⟨bt ++ [tok], rt', false, ?_, rfl, ?_, by simp, hst, ?_⟩, ?_, ?_, ⟨ht, by show (s.buf.push (some tok)).toList.take s.idx = _; rw [take_push_le _ _ _ hle]; exact hht, hall⟩⟩
          · show (s.buf.push (some tok)).toList.drop s.idx = _
            simp only [Array.toList_push, List.map_append, List.map_cons, List.map_nil]
            rw [List.drop_append_of_le_length (by simp; exact hle), hbuf]
            simp
          · show toks = (bt ++ [tok]).map (fun t => (t.kind, t.val)) ++ rt'.map (clsF env.ty)
            rw [htoks]; simp [tok, clsF]
          · intro _; show s.pulled + 1 = (s.buf.push (some tok)).size; simp; omega
          · show s.idx ≤ (s.buf.push (some tok)).size; simp; omega
          · exact pos_push_some hpos (by show s.pulled = s.buf.size; exact hp)
        obtain ⟨s', hf', hs', hsc, hidx, hext, hsz, hnb, htk⟩ := ih n s1 toks hs1 hn (by
          show n ≤ fuel + ((s.buf.push (some tok)).size - s.idx); simp; omega)
        refine ⟨s', ?_, hs', hsc, hidx, ?_, ?_, hnb, htk⟩
        · simp only [fill, hlt, ↓reduceIte, hlex]
          exact hf'
        · exact BufExt.trans (bufExt_push s _ s1 rfl) hext (by show s.buf.size ≤ (s.buf.push (some tok)).size; simp)
        · have : s.buf.size ≤ s1.buf.size := by show s.buf.size ≤ (s.buf.push (some tok)).size; simp
          omega
    · refine ⟨s, by simp [fill, hlt], h, h.agrees.funext, rfl, fun _ _ => rfl, Nat.le_refl _, by omega, rfl⟩


/-- `peek(k)` (k >= 1) when at least `k` tokens are still to come -/
theorem peekK_spec (kk : Nat) (s : PState) (toks : List Tk) (t : Tk) (h : SeesT env s toks)
    (ht : toks[kk]? = some t) :
    ∃ s', peekK (kk + 1) s = .ok (some ⟨t.1, t.2, s.idx + kk⟩) s' ∧ SeesT env s' toks ∧ isTypeInScopes s'.scopes = env.ty ∧
      s'.idx = s.idx ∧ BufExt s s' ∧ s.buf.size ≤ s'.buf.size := by
  have hlen : kk + 1 ≤ toks.length := by
    have := (List.getElem?_eq_some_iff.mp ht).1; omega
  let s0 : PState := { s with ticks := s.ticks + 1 }
  have hs0 : SeesT env s0 toks := ⟨h.buffered, h.idx_le, h.pos, h.hist⟩
  obtain ⟨s', hf, hs', hsc, hidx, hext, hsz, hnb, _⟩ := fill_spec (kk + 1) (kk + 1) s0 toks hs0 hlen (by omega)
  refine ⟨s', ?_, hs', hsc, hidx, hext, hsz⟩
  -- the entry at idx + kk is the kk-th upcoming token
  obtain ⟨⟨bt, rt, e, hbuf, hraw, htoks, he, hneu, hpul⟩, hle, hpos, hhist⟩ := hs'
  have hlen' : (s'.buf.toList.drop s'.idx).length = s'.buf.size - s'.idx := by simp
  have hbl : bt.length + (if e then 1 else 0) = s'.buf.size - s'.idx := by
    rw [← hlen', hbuf]; cases e <;> simp
  have hbt : kk < bt.length := by
    have hi : s'.idx = s.idx := hidx
    have hnb' : s.idx + (kk + 1) ≤ s'.buf.size := hnb
    cases e with
    | false => simp at hbl; omega
    | true =>
      have := he rfl; subst this
      have : toks.length = bt.length := by rw [htoks]; simp
      omega
  have hget : s'.buf[s'.idx + kk]? = some (some bt[kk]) := by
    rw [← Array.getElem?_toList, ← List.getElem?_drop, hbuf]
    simp [List.getElem?_append_left, hbt]
  have hti := hpos _ _ hget
  have htk : (bt[kk].kind, bt[kk].val) = t := by
    have : toks[kk]? = some (bt[kk].kind, bt[kk].val) := by
      rw [htoks]; simp [List.getElem?_append_left, hbt]
    rw [ht] at this; exact (Option.some.inj this).symm
  show peekK (kk + 1) s = _
  unfold peekK
  simp only [show ((kk + 1 : Nat) == 0) = false by simp, Bool.false_eq_true, ↓reduceIte]
  have hf' : fill (kk + 1) (kk + 1) { s with ticks := s.ticks + 1 } = .ok () s' := hf
  rw [hf']
  have hi : s'.idx = s.idx := hidx
  have e1 : s'.idx + (kk + 1) - 1 = s'.idx + kk := by omega
  simp only [e1, hget]
  cases hb : bt[kk] with
  | mk k v i =>
    rw [hb] at htk hti
    simp only at htk hti
    rw [← htk, hti, hi]

/-- the tokens still to come are the rest of the whole input -/
theorem SeesT.all_drop {s : PState} {toks : List Tk} (h : SeesT env s toks) : env.all.drop s.idx = toks := by
  obtain ⟨ht, hht, hall⟩ := h.hist
  have hlen : ht.length = s.idx := by
    have := congrArg List.length hht
    simp at this
    have := h.idx_le
    omega
  rw [hall, List.drop_append_of_le_length (by simp [hlen])]
  simp [hlen]

/-- `_reset(mark)`: going back to any earlier position restores what was visible there - the tokens
consumed since are still in the buffer -/
theorem reset_spec (s : PState) (toks : List Tk) (m : Nat) (h : SeesT env s toks) (hm : m ≤ s.idx) :
    ∃ s', reset m s = .ok () s' ∧ SeesT env s' (env.all.drop m) ∧ isTypeInScopes s'.scopes = env.ty ∧ s'.idx = m ∧
      BufExt s s' ∧ s.buf.size ≤ s'.buf.size := by
  obtain ⟨⟨bt, rt, e, hbuf, hraw, htoks, he, hneu, hpul⟩, hle, hpos, hhist⟩ := h
  obtain ⟨ht, hht, hall⟩ := hhist
  have hlen : ht.length = s.idx := by
    have := congrArg List.length hht
    simp at this
    omega
  have hsplit : s.buf.toList = s.buf.toList.take s.idx ++ s.buf.toList.drop s.idx := (List.take_append_drop _ _).symm
  have hdropm : env.all.drop m = (ht.drop m).map (fun t => (t.kind, t.val)) ++ toks := by
    rw [hall, List.drop_append_of_le_length (by simp [hlen]; exact hm)]
    simp
  refine ⟨{ s with idx := m, ticks := s.ticks + 1 }, rfl,
    ⟨⟨ht.drop m ++ bt, rt, e, ?_, hraw, ?_, he, hneu, hpul⟩, by show m ≤ s.buf.size; omega, hpos, ⟨ht.take m, ?_, ?_⟩⟩,
    hneu.funext, rfl, fun _ _ => rfl, Nat.le_refl _⟩
  · show s.buf.toList.drop m = _
    rw [hsplit, hht, hbuf, List.drop_append_of_le_length (by simp [hlen]; exact hm)]
    simp
  · rw [hdropm, htoks]; simp
  · show s.buf.toList.take m = _
    have : s.buf.toList.take m = (s.buf.toList.take s.idx).take m := by
      rw [List.take_take]; congr 1; omega
    rw [this, hht]; simp
  · rw [hdropm, ← List.append_assoc, ← List.map_append, List.take_append_drop]
    exact hall

/-- going back to a position where the view was known: the same view again -/
theorem reset_to (s0 s : PState) (toks0 toks : List Tk) (h0 : SeesT env s0 toks0) (h : SeesT env s toks)
    (hm : s0.idx ≤ s.idx) :
    ∃ s', reset s0.idx s = .ok () s' ∧ SeesT env s' toks0 ∧ s'.idx = s0.idx := by
  obtain ⟨s', hr, hs', _, hi, _⟩ := reset_spec s toks s0.idx h hm
  rw [h0.all_drop] at hs'
  exact ⟨s', hr, hs', hi⟩

/-- going back over one token that is still in the buffer (`_reset(mark)` right after an `_advance`) -/
theorem reset_one (s : PState) (toks : List Tk) (m : Nat) (t : PTok) (h : SeesT env s toks) (hi : s.idx = m + 1)
    (hb : s.buf[m]? = some (some t)) :
    ∃ s', reset m s = .ok () s' ∧ SeesT env s' ((t.kind, t.val) :: toks) ∧ isTypeInScopes s'.scopes = env.ty ∧ s'.idx = m ∧
      BufExt s s' ∧ s.buf.size ≤ s'.buf.size := by
  obtain ⟨s', hr, hs', hty, hidx, hext, hsz⟩ := reset_spec s toks m h (by omega)
  refine ⟨s', hr, ?_, hty, hidx, hext, hsz⟩
  obtain ⟨ht, hht, hall⟩ := h.hist
  have hle := h.idx_le
  have hlen : ht.length = m + 1 := by
    have := congrArg List.length hht
    simp at this
    omega
  have hm : ht[m]? = some t := by
    have h1 : (s.buf.toList.take s.idx)[m]? = some (some t) := by
      rw [List.getElem?_take_of_lt (by omega), Array.getElem?_toList]; exact hb
    rw [hht, List.getElem?_map] at h1
    cases hx : ht[m]? with
    | none => rw [hx] at h1; cases h1
    | some x => rw [hx] at h1; simp at h1; rw [h1]
  have hd : ht.drop m = [t] := by
    have hlt : m < ht.length := by omega
    rw [List.drop_eq_getElem_cons hlt, List.drop_of_length_le (by omega)]
    have := List.getElem?_eq_getElem hlt
    rw [hm] at this
    rw [← Option.some.inj this]
  have : env.all.drop m = (t.kind, t.val) :: toks := by
    rw [hall, List.drop_append_of_le_length (by simp [hlen]), ← List.map_drop, hd]
    rfl
  rw [this] at hs'
  exact hs'

/-! ## registering an ordinary identifier that is not a type name -/

theorem scopeLookup_set_ne (sc : Scope) (n m : String) (b : Bool) (h : m ≠ n) :
    scopeLookup (scopeSet sc n b) m = scopeLookup sc m := by
  simp only [scopeLookup, scopeSet]
  rw [List.find?_cons_of_neg (by simpa using fun h' => h h'.symm)]
  congr 1
  induction sc with
  | nil => rfl
  | cons e sc ih =>
    by_cases he : e.1 = n
    · have : (e.1 != n) = false := by simp [he]
      rw [List.filter_cons_of_neg (by simp [he])]
      rw [ih, List.find?_cons_of_neg (by simp [he]; exact fun h' => h h'.symm)]
    · rw [List.filter_cons_of_pos (by simp [he])]
      by_cases hm : e.1 = m
      · rw [List.find?_cons_of_pos (by simp [hm]), List.find?_cons_of_pos (by simp [hm])]
      · rw [List.find?_cons_of_neg (by simp [hm]), List.find?_cons_of_neg (by simp [hm]), ih]

theorem scopeLookup_set_eq (sc : Scope) (n : String) (b : Bool) : scopeLookup (scopeSet sc n b) n = some b := by
  simp [scopeLookup, scopeSet]

theorem mem_scopeSet {sc : Scope} {n : String} {b : Bool} {e : String × Bool} (h : e ∈ scopeSet sc n b) :
    e = (n, b) ∨ e ∈ sc := by
  simp only [scopeSet, List.mem_cons, List.mem_filter] at h
  rcases h with h | h
  · exact .inl h
  · exact .inr h.1

/-- `_add_identifier(n)` for a name that is not a type name keeps the static environment, hence
the token view -/
theorem addIdentifier_spec (s : PState) (toks : List Tk) (n : String) (c : Option Coord) (h : SeesT env s toks)
    (hn : env.ty n = false) :
    ∃ s', addIdentifier n c s = .ok () s' ∧ SeesT env s' toks ∧ s'.idx = s.idx ∧ s'.buf = s.buf := by
  obtain ⟨⟨bt, rt, e, hbuf, hraw, htoks, he, hneu, hpul⟩, hle, hpos, hhist⟩ := h
  obtain ⟨ht, hht, hallT⟩ := hhist
  obtain ⟨hall, init, last, heq, hlast⟩ := hneu
  cases hsc : s.scopes with
  | nil => rw [hsc] at heq; simp at heq
  | cons sc rest =>
    have hlk : (scopeLookup sc n).getD false = false := by
      cases hl : scopeLookup sc n with
      | none => rfl
      | some b =>
        have := hall sc (by rw [hsc]; simp) (n, b) (scopeLookup_mem hl)
        simp only at this
        rw [this, hn]; rfl
    -- the new stack agrees with the same environment
    have hag : Agrees env.ty (scopeSet sc n false :: rest) := by
      refine ⟨?_, ?_⟩
      · intro sc' hsc' e' he'
        simp only [List.mem_cons] at hsc'
        rcases hsc' with rfl | hsc'
        · rcases mem_scopeSet he' with rfl | hm
          · exact hn.symm
          · exact hall sc (by rw [hsc]; simp) e' hm
        · exact hall sc' (by rw [hsc]; simp [hsc']) e' he'
      · rw [hsc] at heq
        cases init with
        | nil =>
          simp only [List.nil_append, List.cons.injEq] at heq
          obtain ⟨rfl, rfl⟩ := heq
          refine ⟨[], scopeSet sc n false, rfl, ?_⟩
          intro m hm
          have hmn : m ≠ n := by rintro rfl; rw [hn] at hm; cases hm
          rw [scopeLookup_set_ne _ _ _ _ hmn]; exact hlast m hm
        | cons a init' =>
          simp only [List.cons_append, List.cons.injEq] at heq
          exact ⟨scopeSet sc n false :: init', last, by rw [heq.2]; rfl, hlast⟩
    refine ⟨{ s with scopes := scopeSet sc n false :: rest }, ?_, ⟨⟨bt, rt, e, hbuf, hraw, htoks, he, hag, hpul⟩, hle, hpos, ⟨ht, hht, hallT⟩⟩, rfl, rfl⟩
    unfold addIdentifier
    rw [hsc]
    simp [hlk]

end PycModel.View
