import PycModel.Proofs.FullExpr
import PycModel.Proofs.DeclParse
import PycModel.Proofs.SwitchRefine
/-!
# Statements nest exactly as the C grammar says (C99 6.8)

`S ::= X ; | ; | { S* } | if ( X ) S | if ( X ) S else S | while ( X ) S | do S while ( X ) ; |
return X? ; | break ; | continue ;` with the expressions of `Proofs/FullExpr.lean`.
`parse_stmt`: for every statement of any size and nesting depth, `_parse_statement` of the parser
model returns `S.val` - an `else` belongs to the nearest `if` that can take it, loop and branch
bodies are the single following statement, block items keep their order - and consumes exactly
the statement's tokens.  Braces are handled by the token view (`lexScopes`).
-/
namespace PycModel.StmtSkel
open PycModel PycModel.View PycModel.OperandId PycModel.FullExpr PycModel.DeclParse

variable {env : Env}

theorem bnd {α β} (m : P α) (f : α → P β) (s : PState) :
    (m >>= f) s = match m s with | .ok a s' => f a s' | .err e => .err e := rfl
theorem pur {α} (a : α) (s : PState) : (pure a : P α) s = .ok a s := rfl
theorem pure_bind_P {α β} (a : α) (f : α → P β) : ((pure a : P α) >>= f) = f a := rfl

/-- optional expressions (the clauses of `for`) -/
def ont : Option X → Nat | none => 0 | some e => e.ntoks
def oflat : Option X → List Tk | none => [] | some e => e.flat
def oval (n : Nat) : Option X → Val | none => .none | some e => e.val n
def ofuel : Option X → Nat | none => 0 | some e => e.fuel
def OWF (o : Option X) : Prop := ∀ e, o = some e → WFX 0 e

/-- a `#pragma` line as the lexer delivers it: `PPPRAGMA`, then `PPPRAGMASTR` if there is text -/
def pragmaFlat : Option String → List Tk
  | none => [("PPPRAGMA", "pragma")]
  | some str => [("PPPRAGMA", "pragma"), ("PPPRAGMASTR", str)]
def pragmaNtoks : Option String → Nat
  | none => 1
  | some _ => 2
/-- the `Pragma` node: its coordinate is the text's, or the directive's when there is no text -/
def pragmaVal (n : Nat) : Option String → Val
  | none => mk .Pragma (tc n) [.str ""]
  | some str => mk .Pragma (tc (n + 1)) [.str str]

mutual
inductive S where
  | expr (e : X)
  | empty
  | block (items : SL)
  | ifThen (c : X) (t : S)
  | ifElse (c : X) (t f : S)
  | while_ (c : X) (b : S)
  | doWhile (b : S) (c : X)
  | ret (e : Option X)
  | brk
  | cont
  | case_ (e : X) (s : S)
  | default_ (s : S)
  | switch_ (c : X) (b : S)
  | for_ (i c n : Option X) (b : S)
  | forD (dc : Dcl) (c n : Option X) (b : S)
  | goto_ (x : String)
  | label (x : String) (s : S)
inductive SL where
  | nil
  | cons (s : S) (rest : SL)
  | consD (dc : Dcl) (rest : SL)
  | consP (p : Option String) (rest : SL)     -- a `#pragma` line as a block item
end

mutual
def S.ntoks : S → Nat
  | .expr e => e.ntoks + 1
  | .empty => 1
  | .block items => items.ntoks + 2
  | .ifThen c t => 2 + c.ntoks + 1 + t.ntoks
  | .ifElse c t f => 2 + c.ntoks + 1 + t.ntoks + 1 + f.ntoks
  | .while_ c b => 2 + c.ntoks + 1 + b.ntoks
  | .doWhile b c => 1 + b.ntoks + 2 + c.ntoks + 2
  | .ret none => 2
  | .ret (some e) => 1 + e.ntoks + 1
  | .brk => 2
  | .cont => 2
  | .case_ e s => 1 + e.ntoks + 1 + s.ntoks
  | .default_ s => 2 + s.ntoks
  | .switch_ c b => 2 + c.ntoks + 1 + b.ntoks
  | .for_ i c n b => 2 + ont i + 1 + ont c + 1 + ont n + 1 + b.ntoks
  | .forD dc c n b => 2 + dc.ntoks + ont c + 1 + ont n + 1 + b.ntoks
  | .goto_ _ => 3
  | .label _ s => 2 + s.ntoks
def SL.ntoks : SL → Nat
  | .nil => 0
  | .cons s r => s.ntoks + r.ntoks
  | .consD dc r => dc.ntoks + r.ntoks
  | .consP p r => pragmaNtoks p + r.ntoks
end

mutual
def S.flat : S → List Tk
  | .expr e => e.flat ++ [("SEMI", ";")]
  | .empty => [("SEMI", ";")]
  | .block items => ("LBRACE", "{") :: (items.flat ++ [("RBRACE", "}")])
  | .ifThen c t => ("IF", "if") :: ("LPAREN", "(") :: (c.flat ++ ("RPAREN", ")") :: t.flat)
  | .ifElse c t f => ("IF", "if") :: ("LPAREN", "(") :: (c.flat ++ ("RPAREN", ")") :: (t.flat ++ ("ELSE", "else") :: f.flat))
  | .while_ c b => ("WHILE", "while") :: ("LPAREN", "(") :: (c.flat ++ ("RPAREN", ")") :: b.flat)
  | .doWhile b c => ("DO", "do") :: (b.flat ++ ("WHILE", "while") :: ("LPAREN", "(") :: (c.flat ++ [("RPAREN", ")"), ("SEMI", ";")]))
  | .ret none => [("RETURN", "return"), ("SEMI", ";")]
  | .ret (some e) => ("RETURN", "return") :: (e.flat ++ [("SEMI", ";")])
  | .brk => [("BREAK", "break"), ("SEMI", ";")]
  | .cont => [("CONTINUE", "continue"), ("SEMI", ";")]
  | .case_ e s => ("CASE", "case") :: (e.flat ++ ("COLON", ":") :: s.flat)
  | .default_ s => ("DEFAULT", "default") :: ("COLON", ":") :: s.flat
  | .switch_ c b => ("SWITCH", "switch") :: ("LPAREN", "(") :: (c.flat ++ ("RPAREN", ")") :: b.flat)
  | .for_ i c n b => ("FOR", "for") :: ("LPAREN", "(") :: (oflat i ++ ("SEMI", ";") :: (oflat c ++ ("SEMI", ";") ::
      (oflat n ++ ("RPAREN", ")") :: b.flat)))
  | .forD dc c n b => ("FOR", "for") :: ("LPAREN", "(") :: (dc.flat ++ (oflat c ++ ("SEMI", ";") ::
      (oflat n ++ ("RPAREN", ")") :: b.flat)))
  | .goto_ x => [("GOTO", "goto"), ("ID", x), ("SEMI", ";")]
  | .label x s => ("ID", x) :: ("COLON", ":") :: s.flat
def SL.flat : SL → List Tk
  | .nil => []
  | .cons s r => s.flat ++ r.flat
  | .consD dc r => dc.flat ++ r.flat
  | .consP p r => pragmaFlat p ++ r.flat
end


mutual
/-- the AST of the statement whose first token is at stream position `n` -/
def S.val (n : Nat) : S → Val
  | .expr e => e.val n
  | .empty => mk .EmptyStatement (tc n) []
  | .block .nil => mk .Compound (tc n) [.none]
  | .block (.cons s r) => mk .Compound (tc n) [.list (SL.vals (n + 1) (.cons s r))]
  | .block (.consD dc r) => mk .Compound (tc n) [.list (SL.vals (n + 1) (.consD dc r))]
  | .block (.consP p r) => mk .Compound (tc n) [.list (SL.vals (n + 1) (.consP p r))]
  | .ifThen c t => mk .If (tc n) [c.val (n + 2), t.val (n + 2 + c.ntoks + 1), .none]
  | .ifElse c t f => mk .If (tc n) [c.val (n + 2), t.val (n + 2 + c.ntoks + 1),
      f.val (n + 2 + c.ntoks + 1 + t.ntoks + 1)]
  | .while_ c b => mk .While (tc n) [c.val (n + 2), b.val (n + 2 + c.ntoks + 1)]
  | .doWhile b c => mk .DoWhile (tc n) [c.val (n + 1 + b.ntoks + 2), b.val (n + 1)]
  | .ret none => mk .Return (tc n) [.none]
  | .ret (some e) => mk .Return (tc n) [e.val (n + 1)]
  | .brk => mk .Break (tc n) []
  | .cont => mk .Continue (tc n) []
  | .case_ e s => mk .Case (tc n) [e.val (n + 1), .list [s.val (n + 1 + e.ntoks + 1)]]
  | .default_ s => mk .Default (tc n) [.list [s.val (n + 2)]]
  | .switch_ c b => mk .Switch (tc n) [c.val (n + 2), Spec.switchBodyV (b.val (n + 2 + c.ntoks + 1))]
  | .for_ i c nx b => mk .For (tc n) [oval (n + 2) i, oval (n + 2 + ont i + 1) c, oval (n + 2 + ont i + 1 + ont c + 1) nx,
      b.val (n + 2 + ont i + 1 + ont c + 1 + ont nx + 1)]
  | .forD dc c nx b => mk .For (tc n) [mk .DeclList (tc n) [.list (dc.vals (n + 2))], oval (n + 2 + dc.ntoks) c,
      oval (n + 2 + dc.ntoks + ont c + 1) nx, b.val (n + 2 + dc.ntoks + ont c + 1 + ont nx + 1)]
  | .goto_ x => mk .Goto (tc n) [.str x]
  | .label x s => mk .Label (tc n) [.str x, s.val (n + 2)]
def SL.vals (n : Nat) : SL → List Val
  | .nil => []
  | .cons s r => s.val n :: SL.vals (n + s.ntoks) r
  | .consD dc r => dc.vals n ++ SL.vals (n + dc.ntoks) r
  | .consP p r => pragmaVal n p :: SL.vals (n + pragmaNtoks p) r
end

/-- the statement ends with an `if` that has no `else` (so a following `else` would attach to it) -/
def S.openIf : S → Bool
  | .ifThen _ _ => true
  | .ifElse _ _ f => f.openIf
  | .while_ _ b => b.openIf
  | .case_ _ s => s.openIf
  | .default_ s => s.openIf
  | .switch_ _ b => b.openIf
  | .for_ _ _ _ b => b.openIf
  | .forD _ _ _ b => b.openIf
  | .label _ s => s.openIf
  | _ => false

mutual
/-- well-formedness: expressions at the comma level; the `then` branch of an `if ... else` must not
end with an `else`-less `if` (the grammar's resolution of the dangling else) -/
inductive WFS (ty : String → Bool) : S → Prop
  | expr (e) : WFX 0 e → WFS ty (.expr e)
  | empty : WFS ty .empty
  | block (items) : WFSL ty items → WFS ty (.block items)
  | ifThen (c t) : WFX 0 c → WFS ty t → WFS ty (.ifThen c t)
  | ifElse (c t f) : WFX 0 c → WFS ty t → t.openIf = false → WFS ty f → WFS ty (.ifElse c t f)
  | while_ (c b) : WFX 0 c → WFS ty b → WFS ty (.while_ c b)
  | doWhile (b c) : WFS ty b → WFX 0 c → WFS ty (.doWhile b c)
  | retNone : WFS ty (.ret none)
  | retSome (e) : WFX 0 e → WFS ty (.ret (some e))
  | brk : WFS ty .brk
  | cont : WFS ty .cont
  | case_ (e s) : WFX 2 e → WFS ty s → WFS ty (.case_ e s)
  | default_ (s) : WFS ty s → WFS ty (.default_ s)
  | switch_ (c b) : WFX 0 c → WFS ty b → WFS ty (.switch_ c b)
  | for_ (i c n b) : OWF i → OWF c → OWF n → WFS ty b → WFS ty (.for_ i c n b)
  | forD (dc c n b) : WFDcl dc → (∀ x ∈ dc.names, ty x = false) → OWF c → OWF n → WFS ty b → WFS ty (.forD dc c n b)
  | goto_ (x) : WFS ty (.goto_ x)
  | label (x s) : WFS ty s → WFS ty (.label x s)
inductive WFSL (ty : String → Bool) : SL → Prop
  | nil : WFSL ty .nil
  | cons (s r) : WFS ty s → WFSL ty r → WFSL ty (.cons s r)
  | consD (dc r) : WFDcl dc → (∀ x ∈ dc.names, ty x = false) → WFSL ty r → WFSL ty (.consD dc r)
  | consP (p r) : WFSL ty r → WFSL ty (.consP p r)
end


/-! ## dispatch of `_parse_statement` -/

theorem not_case_default (k : String) (h : k ≠ "CASE" ∧ k ≠ "DEFAULT") :
    ((some k == some "CASE") || (some k == some "DEFAULT")) = false := by
  simp [h.1, h.2]

/-- the last branch of `_parse_statement`: `_parse_expression_statement` -/
def exprStmtM (F : Nat) : P Val := do
  let expr ← if ← startsExpression then run F .expression else pure Val.none
  let semi ← expect "SEMI"
  if expr.isNone then pure (mk .EmptyStatement (some (← tokCoord semi)) [])
  else pure expr

/-- the common prefix of `_parse_statement` for a head token that is neither `case`/`default` nor
an identifier: the label test is skipped -/
theorem stmt_head (F : Nat) (s : PState) (k v : String) (toks : List Tk) (hs : SeesT env s ((k, v) :: toks))
    (hk : k ≠ "CASE" ∧ k ≠ "DEFAULT" ∧ k ≠ "ID") :
    ∃ s1, SeesT env s1 ((k, v) :: toks) ∧ s1.idx = s.idx ∧
      run (F + 1) .statement s =
        (if k == "LBRACE" then run F .compoundStatement
         else if k == "IF" || k == "SWITCH" then run F .selectionStatement
         else if k == "WHILE" || k == "DO" || k == "FOR" then run F .iterationStatement
         else if inSet (some k) ["GOTO", "BREAK", "CONTINUE", "RETURN"] then run F .jumpStatement
         else if k == "PPPRAGMA" || k == "_PRAGMA" then run F .pragmaDirective
         else if k == "_STATIC_ASSERT" then (do
            match ← run F .staticAssert with
            | n :: _ => pure n
            | [] => crash .index "_parse_static_assert()[0]")
         else exprStmtM F) s1 := by
  obtain ⟨s1, h1, hs1, hi1, _⟩ := peekType_spec s _ hs
  refine ⟨s1, hs1, hi1, ?_⟩
  show pStatement (run F) s = _
  obtain ⟨h1', h2', h3'⟩ := hk
  simp only [pStatement, bnd, h1, List.head?_cons, Option.map_some, andM, pur]
  simp [h1', h2', h3', pure_bind_P]
  rfl


/-- `_parse_statement` on an identifier that is not a label: an expression statement -/
theorem stmt_id_head (F : Nat) (s : PState) (x : String) (t2 : Tk) (toks : List Tk)
    (hs : SeesT env s (("ID", x) :: t2 :: toks)) (h2 : t2.1 ≠ "COLON") :
    ∃ s1, SeesT env s1 (("ID", x) :: t2 :: toks) ∧ s1.idx = s.idx ∧ run (F + 1) .statement s = exprStmtM F s1 := by
  obtain ⟨s1, h1, hs1, hi1, _⟩ := peekType_spec s _ hs
  obtain ⟨s2, hp2, hs2, _, hi2, _⟩ := peekK_spec 1 s1 _ t2 hs1 rfl
  refine ⟨s2, hs2, by omega, ?_⟩
  show pStatement (run F) s = _
  simp only [pStatement, bnd, h1, List.head?_cons, Option.map_some, andM, pur]
  simp [pure_bind_P, peek2Is, peekType2, bnd, hp2, pur, h2, inSet]
  rfl

/-- a loop / branch body that does not start with a pragma is a plain statement -/
theorem pcs_to_stmt (F : Nat) (s : PState) (k v : String) (toks : List Tk) (hs : SeesT env s ((k, v) :: toks))
    (hk : k ≠ "PPPRAGMA" ∧ k ≠ "_PRAGMA") :
    ∃ s1, SeesT env s1 ((k, v) :: toks) ∧ s1.idx = s.idx ∧
      run (F + 1) .pragmacompOrStatement s = run F .statement s1 := by
  obtain ⟨s1, h1, hs1, hi1, _⟩ := peekType_spec s _ hs
  refine ⟨s1, hs1, hi1, ?_⟩
  show pPragmacompOrStatement (run F) s = _
  simp [pPragmacompOrStatement, bnd, h1, inSet, hk.1, hk.2]

theorem stopX_semi : StopX "SEMI" := ⟨⟨⟨⟨by decide, by decide⟩, by decide⟩, by decide⟩, by decide⟩

theorem head_starts_expr {L : Nat} {e : X} (hw : WFX L e) :
    ∃ t r, e.flat = t :: r ∧ inSet (some t.1) startsExpressionSet = true := by
  obtain ⟨t, r, h, ht, _⟩ := FullExpr.flat_heads hw
  exact ⟨t, r, h, (FullExpr.heads_facts _ ht).2.1⟩

/-- an expression statement -/
theorem exprStmt_ok (e : X) (hwf : WFX 0 e) (s : PState) (rest : List Tk)
    (hs : SeesT env s (e.flat ++ ("SEMI", ";") :: rest)) (F : Nat) (hF : e.fuel ≤ F) :
    ∃ s', exprStmtM F s = .ok (e.val s.idx) s' ∧ SeesT env s' rest ∧ s'.idx = s.idx + e.ntoks + 1 := by
  obtain ⟨t, r, hfl, hst⟩ := head_starts_expr hwf
  have hs0 : SeesT env s (t :: (r ++ ("SEMI", ";") :: rest)) := by simpa [hfl] using hs
  obtain ⟨s1, h1, hs1, hi1, _⟩ := peekType_spec s _ hs0
  have hs1' : SeesT env s1 (e.flat ++ ("SEMI", ";") :: rest) := by simpa [hfl] using hs1
  obtain ⟨s2, h2, hs2, hi2⟩ := parse_full e hwf s1 ("SEMI", ";") rest stopX_semi hs1' F hF
  obtain ⟨s3, h3, hs3, hi3⟩ := expect_same s2 "SEMI" ";" rest hs2
  refine ⟨s3, ?_, hs3, by omega⟩
  have hn : (e.val s1.idx).isNone = false := by
    have := val_isNode e s1.idx
    cases hv : e.val s1.idx <;> simp_all [Val.isNode, Val.isNone]
  rw [hi1] at h2 hn
  simp [exprStmtM, bnd, startsExpression, h1, hst, h2, h3, hn, pur]

/-- the empty statement -/
theorem emptyStmt_ok (s : PState) (rest : List Tk) (hs : SeesT env s (("SEMI", ";") :: rest)) (F : Nat) :
    ∃ s', exprStmtM F s = .ok (mk .EmptyStatement (tc s.idx) []) s' ∧ SeesT env s' rest ∧ s'.idx = s.idx + 1 := by
  obtain ⟨s1, h1, hs1, hi1, _⟩ := peekType_spec s _ hs
  obtain ⟨s2, h2, hs2, hi2⟩ := expect_same s1 "SEMI" ";" rest hs1
  refine ⟨s2, ?_, hs2, by omega⟩
  have hns : inSet (some "SEMI") startsExpressionSet = false := by decide
  simp [exprStmtM, bnd, startsExpression, h1, hns, h2, pur, Val.isNone, tokCoord, tc, hi1]


/-! ## fuel, heads -/

mutual
def S.fuel : S → Nat
  | .expr e => e.fuel + 2
  | .empty => 2
  | .block items => items.fuel + 3
  | .ifThen c t => c.fuel + t.fuel + 4
  | .ifElse c t f => c.fuel + t.fuel + f.fuel + 4
  | .while_ c b => c.fuel + b.fuel + 4
  | .doWhile b c => c.fuel + b.fuel + 4
  | .ret none => 3
  | .ret (some e) => e.fuel + 3
  | .brk => 3
  | .cont => 3
  | .case_ e s => e.fuel + s.fuel + 4
  | .default_ s => s.fuel + 4
  | .switch_ c b => c.fuel + b.fuel + 4
  | .for_ i c n b => ofuel i + ofuel c + ofuel n + b.fuel + 5
  | .forD dc c n b => dc.fuel + ofuel c + ofuel n + b.fuel + 5
  | .goto_ _ => 3
  | .label _ s => s.fuel + 4
def SL.fuel : SL → Nat
  | .nil => 1
  | .cons s r => s.fuel + r.fuel + 2
  | .consD dc r => dc.fuel + r.fuel + 3
  | .consP _ r => r.fuel + 4
end

def stmtHeads : List String :=
  exprHeads ++ ["SEMI", "LBRACE", "IF", "WHILE", "DO", "RETURN", "BREAK", "CONTINUE", "CASE", "DEFAULT", "SWITCH", "FOR", "GOTO"]

theorem S.head {ty : String → Bool} : ∀ st : S, WFS ty st → ∃ t r, st.flat = t :: r ∧ t.1 ∈ stmtHeads
  | .expr e, hw => by
    cases hw with
    | expr _ hwe =>
      obtain ⟨t, r, h, ht, _⟩ := FullExpr.flat_heads hwe
      exact ⟨t, r ++ [("SEMI", ";")], by simp [S.flat, h], List.mem_append_left _ ht⟩
  | .empty, _ => ⟨_, _, rfl, by decide⟩
  | .block _, _ => ⟨_, _, rfl, by decide⟩
  | .ifThen .., _ => ⟨_, _, rfl, by decide⟩
  | .ifElse .., _ => ⟨_, _, rfl, by decide⟩
  | .while_ .., _ => ⟨_, _, rfl, by decide⟩
  | .doWhile .., _ => ⟨_, _, rfl, by decide⟩
  | .ret none, _ => ⟨_, _, rfl, by decide⟩
  | .ret (some _), _ => ⟨_, _, rfl, by decide⟩
  | .brk, _ => ⟨_, _, rfl, by decide⟩
  | .cont, _ => ⟨_, _, rfl, by decide⟩
  | .case_ .., _ => ⟨_, _, rfl, by decide⟩
  | .default_ .., _ => ⟨_, _, rfl, by decide⟩
  | .switch_ .., _ => ⟨_, _, rfl, by decide⟩
  | .for_ .., _ => ⟨_, _, rfl, by decide⟩
  | .forD .., _ => ⟨_, _, rfl, by decide⟩
  | .goto_ _, _ => ⟨_, _, rfl, by decide⟩
  | .label .., _ => ⟨_, _, rfl, (by decide : "ID" ∈ stmtHeads)⟩

theorem stmtHeads_facts : ∀ k ∈ stmtHeads,
    k ≠ "PPPRAGMA" ∧ k ≠ "_PRAGMA" ∧ k ≠ "ELSE" ∧ k ≠ "RBRACE" ∧ inSet (some k) declStart = false ∧
    (inSet (some k) startsStatementSet = true ∨ inSet (some k) startsExpressionSet = true) := by decide

/-- an expression head that is not an identifier goes to the last branch of `_parse_statement` -/
theorem exprHeads_dispatch : ∀ k ∈ exprHeads, (k == "LBRACE") = false ∧ (k == "IF" || k == "SWITCH") = false ∧
    (k == "WHILE" || k == "DO" || k == "FOR") = false ∧ inSet (some k) ["GOTO", "BREAK", "CONTINUE", "RETURN"] = false ∧
    (k == "PPPRAGMA" || k == "_PRAGMA") = false ∧ (k == "_STATIC_ASSERT") = false ∧ k ≠ "CASE" ∧ k ≠ "DEFAULT" ∧
    k ≠ "SEMI" := by decide

theorem oflat_length (o : Option X) : (oflat o).length = ont o := by
  cases o <;> simp [oflat, ont, FullExpr.flat_length]

mutual
theorem S.flat_length : ∀ st : S, st.flat.length = st.ntoks
  | .expr e => by simp [S.flat, S.ntoks, FullExpr.flat_length]
  | .empty => rfl
  | .block items => by simp [S.flat, S.ntoks, SL.flat_length items]
  | .ifThen c t => by simp [S.flat, S.ntoks, FullExpr.flat_length, S.flat_length t]; omega
  | .ifElse c t f => by simp [S.flat, S.ntoks, FullExpr.flat_length, S.flat_length t, S.flat_length f]; omega
  | .while_ c b => by simp [S.flat, S.ntoks, FullExpr.flat_length, S.flat_length b]; omega
  | .doWhile b c => by simp [S.flat, S.ntoks, FullExpr.flat_length, S.flat_length b]; omega
  | .ret none => rfl
  | .ret (some e) => by simp [S.flat, S.ntoks, FullExpr.flat_length]; omega
  | .brk => rfl
  | .cont => rfl
  | .case_ e st => by simp [S.flat, S.ntoks, FullExpr.flat_length, S.flat_length st]; omega
  | .default_ st => by simp [S.flat, S.ntoks, S.flat_length st]; omega
  | .switch_ c b => by simp [S.flat, S.ntoks, FullExpr.flat_length, S.flat_length b]; omega
  | .for_ i c n b => by simp [S.flat, S.ntoks, oflat_length, S.flat_length b]; omega
  | .forD dc c n b => by simp [S.flat, S.ntoks, oflat_length, S.flat_length b, Dcl.flat_length]; omega
  | .goto_ _ => rfl
  | .label _ st => by simp [S.flat, S.ntoks, S.flat_length st]; omega
theorem SL.flat_length : ∀ l : SL, l.flat.length = l.ntoks
  | .nil => rfl
  | .cons s r => by simp [SL.flat, SL.ntoks, S.flat_length s, SL.flat_length r]
  | .consD dc r => by simp [SL.flat, SL.ntoks, Dcl.flat_length, SL.flat_length r]
  | .consP p r => by cases p <;> simp [SL.flat, SL.ntoks, pragmaFlat, pragmaNtoks, SL.flat_length r] <;> omega
end

theorem S.val_node : ∀ (st : S) (n : Nat), ∃ c co fs, st.val n = .node c co fs
  | .expr e, n => by
    have := val_isNode e n
    cases hv : e.val n <;> simp_all [Val.isNode, S.val]
  | .empty, _ => ⟨_, _, _, rfl⟩
  | .block .nil, _ => ⟨_, _, _, rfl⟩
  | .block (.cons _ _), _ => ⟨_, _, _, rfl⟩
  | .block (.consD _ _), _ => ⟨_, _, _, rfl⟩
  | .block (.consP _ _), _ => ⟨_, _, _, rfl⟩
  | .forD .., _ => ⟨_, _, _, rfl⟩
  | .ifThen .., _ => ⟨_, _, _, rfl⟩
  | .ifElse .., _ => ⟨_, _, _, rfl⟩
  | .while_ .., _ => ⟨_, _, _, rfl⟩
  | .doWhile .., _ => ⟨_, _, _, rfl⟩
  | .ret none, _ => ⟨_, _, _, rfl⟩
  | .ret (some _), _ => ⟨_, _, _, rfl⟩
  | .brk, _ => ⟨_, _, _, rfl⟩
  | .cont, _ => ⟨_, _, _, rfl⟩
  | .case_ .., _ => ⟨_, _, _, rfl⟩
  | .default_ .., _ => ⟨_, _, _, rfl⟩
  | .switch_ .., _ => ⟨_, _, _, rfl⟩
  | .for_ .., _ => ⟨_, _, _, rfl⟩
  | .goto_ _, _ => ⟨_, _, _, rfl⟩
  | .label .., _ => ⟨_, _, _, rfl⟩

/-- what the theorem says about one statement -/
def SOK (env : Env) (st : S) : Prop :=
  ∀ (s : PState) (rest : List Tk) (F : Nat), WFS env.ty st → SeesT env s (st.flat ++ rest) →
    (st.openIf = true → ∀ k v r, rest = (k, v) :: r → k ≠ "ELSE") → st.fuel ≤ F →
    ∃ s', run F .statement s = .ok (st.val s.idx) s' ∧ SeesT env s' rest ∧ s'.idx = s.idx + st.ntoks

/-- ... and about the items of a block, up to its closing brace -/
def SLOK (env : Env) (l : SL) : Prop :=
  ∀ (acc : List Val) (s : PState) (rest : List Tk) (F : Nat), WFSL env.ty l →
    SeesT env s (l.flat ++ ("RBRACE", "}") :: rest) → l.fuel ≤ F →
    ∃ s', run F (.blockItemListLoop acc) s = .ok (acc ++ SL.vals s.idx l) s' ∧
      SeesT env s' (("RBRACE", "}") :: rest) ∧ s'.idx = s.idx + l.ntoks

/-- a statement used as the body of `if` / `else` / a loop -/
theorem body_ok (st : S) (h : SOK env st) (s : PState) (rest : List Tk) (F : Nat) (hwf : WFS env.ty st)
    (hs : SeesT env s (st.flat ++ rest)) (hel : st.openIf = true → ∀ k v r, rest = (k, v) :: r → k ≠ "ELSE")
    (hF : st.fuel + 1 ≤ F) :
    ∃ s', run F .pragmacompOrStatement s = .ok (st.val s.idx) s' ∧ SeesT env s' rest ∧ s'.idx = s.idx + st.ntoks := by
  obtain ⟨G, rfl⟩ : ∃ G, F = G + 1 := ⟨F - 1, by omega⟩
  obtain ⟨t, r, hfl, hth⟩ := S.head st hwf
  obtain ⟨hp1, hp2, _⟩ := stmtHeads_facts t.1 hth
  have hs0 : SeesT env s ((t.1, t.2) :: (r ++ rest)) := by simpa [hfl] using hs
  obtain ⟨s1, hs1, hi1, heq⟩ := pcs_to_stmt G s t.1 t.2 _ hs0 ⟨hp1, hp2⟩
  have hs1' : SeesT env s1 (st.flat ++ rest) := by simpa [hfl] using hs1
  obtain ⟨s2, h2, hs2, hi2⟩ := h s1 rest G hwf hs1' hel (by omega)
  exact ⟨s2, by rw [heq, h2, hi1], hs2, by omega⟩


/-! ## the statement forms -/

theorem binop_not_colon (k : String) (p : Nat) (h : binPrec k = some p) : k ≠ "COLON" := by
  intro hk; subst hk; simp [binPrec, binaryPrecedence] at h

theorem assignop_not_colon (k : String) (h : k ∈ assignmentOps) : k ≠ "COLON" := by
  intro hk; subst hk; simp [assignmentOps] at h

theorem id_second_app (l suf : List Tk) (t : Tk) (rs : List Tk) (hsuf : suf = t :: rs) (ht : t.1 ≠ "COLON")
    (ih : ∀ x r, l = ("ID", x) :: r → r = [] ∨ ∃ t2 r2, r = t2 :: r2 ∧ t2.1 ≠ "COLON") (hne : l ≠ []) :
    ∀ x r, l ++ suf = ("ID", x) :: r → r = [] ∨ ∃ t2 r2, r = t2 :: r2 ∧ t2.1 ≠ "COLON" := by
  intro x r h
  cases l with
  | nil => exact absurd rfl hne
  | cons a l' =>
    simp only [List.cons_append, List.cons.injEq] at h
    obtain ⟨rfl, rfl⟩ := h
    rcases ih x l' rfl with h0 | ⟨t2, r2, h2, hne2⟩
    · subst h0; subst hsuf; exact .inr ⟨t, rs, rfl, ht⟩
    · subst h2; exact .inr ⟨t2, r2 ++ suf, rfl, hne2⟩

theorem flat_ne_nil {L : Nat} {e : X} (h : WFX L e) : e.flat ≠ [] := by
  obtain ⟨t, r, hfl, _⟩ := FullExpr.flat_heads h
  rw [hfl]; exact List.cons_ne_nil _ _

theorem mem_not_colon {k : String} {l : List String} (hk : k ∈ l) (hx : "COLON" ∉ l) : k ≠ "COLON" := by
  intro h; subst h; exact hx hk

/-- after a leading identifier of an expression comes nothing, or a token that is not `:` -/
theorem id_second {L : Nat} {e : X} (hwf : WFX L e) : ∀ x r, e.flat = ("ID", x) :: r →
    r = [] ∨ ∃ t2 r2, r = t2 :: r2 ∧ t2.1 ≠ "COLON" := by
  induction hwf with
  | id L y => intro x r h; simp [X.flat] at h; exact .inl h.2
  | const L k v t hc => intro x r h; simp [X.flat] at h; exact .inl h.2
  | paren L e _ _ => intro x r h; simp [X.flat] at h
  | pre L k v e _ hk _ _ _ =>
    intro x r h; simp only [X.flat, List.cons.injEq, Prod.mk.injEq] at h
    rw [h.1.1] at hk; exact absurd hk (by decide)
  | szof L e _ _ _ _ => intro x r h; simp [X.flat] at h
  | cast L tn e _ _ _ _ => intro x r h; simp [X.flat] at h
  | szofT L tn _ _ => intro x r h; simp [X.flat] at h
  | alignT L tn _ _ => intro x r h; simp [X.flat] at h
  | post L k v e _ hk hw ih =>
    exact id_second_app e.flat _ (k, v) [] rfl (mem_not_colon hk (by decide)) ih (flat_ne_nil hw)
  | index L e i _ hw _ ih _ =>
    exact id_second_app e.flat _ ("LBRACKET", "[") _ rfl (by decide) ih (flat_ne_nil hw)
  | member L k v e f _ hk hw ih =>
    exact id_second_app e.flat _ (k, v) _ rfl (mem_not_colon hk (by decide)) ih (flat_ne_nil hw)
  | call0 L f _ hw ih =>
    exact id_second_app f.flat _ ("LPAREN", "(") _ rfl (by decide) ih (flat_ne_nil hw)
  | call L f a _ hw _ ih _ =>
    exact id_second_app f.flat _ ("LPAREN", "(") _ rfl (by decide) ih (flat_ne_nil hw)
  | bin L p k v l r hp _ hl _ ihl _ =>
    intro x r' h
    exact id_second_app l.flat ((k, v) :: r.flat) (k, v) _ rfl (binop_not_colon k p hp) ihl (flat_ne_nil hl) x r'
      (by simpa [X.flat, List.append_assoc] using h)
  | cond L c t f _ hc _ _ ihc _ _ =>
    intro x r' h
    exact id_second_app c.flat (("CONDOP", "?") :: (t.flat ++ ("COLON", ":") :: f.flat)) ("CONDOP", "?") _ rfl (by decide)
      ihc (flat_ne_nil hc) x r' (by simpa [X.flat, List.append_assoc] using h)
  | assign L k v l r _ hk hl _ ihl _ =>
    intro x r' h
    exact id_second_app l.flat ((k, v) :: r.flat) (k, v) _ rfl (assignop_not_colon k hk) ihl (flat_ne_nil hl) x r'
      (by simpa [X.flat, List.append_assoc] using h)
  | comma a b ha _ iha _ =>
    intro x r' h
    exact id_second_app a.flat (("COMMA", ",") :: b.flat) ("COMMA", ",") _ rfl (by decide) iha (flat_ne_nil ha) x r'
      (by simpa [X.flat, List.append_assoc] using h)

theorem sok_expr (e : X) : SOK env (.expr e) := by
  intro s rest F hwf hs _ hF
  cases hwf with
  | expr _ hwe =>
    obtain ⟨G, rfl⟩ : ∃ G, F = G + 1 := ⟨F - 1, by simp only [S.fuel] at hF; omega⟩
    simp only [S.fuel] at hF
    have hs0 : SeesT env s (e.flat ++ ("SEMI", ";") :: rest) := by simpa [S.flat] using hs
    obtain ⟨t, r, hfl, ht, _⟩ := FullExpr.flat_heads hwe
    -- reach the expression-statement branch
    have hreach : ∃ s1, SeesT env s1 (e.flat ++ ("SEMI", ";") :: rest) ∧ s1.idx = s.idx ∧
        run (G + 1) .statement s = exprStmtM G s1 := by
      by_cases hid : t.1 = "ID"
      · obtain ⟨tk, tv⟩ := t
        simp only at hid; subst hid
        have h2 : ∃ t2 r2, r ++ ("SEMI", ";") :: rest = t2 :: r2 ∧ t2.1 ≠ "COLON" := by
          rcases id_second hwe tv r hfl with h0 | ⟨t2, r2, h2, hne⟩
          · subst h0; exact ⟨("SEMI", ";"), rest, rfl, by decide⟩
          · subst h2; exact ⟨t2, r2 ++ ("SEMI", ";") :: rest, by simp, hne⟩
        obtain ⟨t2, r2, he2, hne⟩ := h2
        have hs1 : SeesT env s (("ID", tv) :: t2 :: r2) := by simpa [hfl, he2] using hs0
        obtain ⟨s1, hs1', hi1, heq⟩ := stmt_id_head G s tv t2 r2 hs1 hne
        exact ⟨s1, by simpa [hfl, he2] using hs1', hi1, heq⟩
      · obtain ⟨tk, tv⟩ := t
        simp only at hid ht
        obtain ⟨d1, d2, d3, d4, d5, d6, d7, d8, _⟩ := exprHeads_dispatch tk ht
        have hs1 : SeesT env s ((tk, tv) :: (r ++ ("SEMI", ";") :: rest)) := by simpa [hfl] using hs0
        obtain ⟨s1, hs1', hi1, heq⟩ := stmt_head G s tk tv _ hs1 ⟨d7, d8, hid⟩
        refine ⟨s1, by simpa [hfl] using hs1', hi1, ?_⟩
        rw [heq]; simp only [d1, d2, d3, d4, d5, d6, Bool.false_eq_true, ↓reduceIte]
    obtain ⟨s1, hs1, hi1, heq⟩ := hreach
    obtain ⟨s2, h2, hs2, hi2⟩ := exprStmt_ok e hwe s1 rest hs1 G (by omega)
    exact ⟨s2, by rw [heq, h2, hi1]; rfl, hs2, by simp only [S.ntoks]; omega⟩

theorem sok_empty : SOK env .empty := by
  intro s rest F _ hs _ hF
  obtain ⟨G, rfl⟩ : ∃ G, F = G + 1 := ⟨F - 1, by simp only [S.fuel] at hF; omega⟩
  have hs0 : SeesT env s (("SEMI", ";") :: rest) := by simpa [S.flat] using hs
  obtain ⟨s1, hs1, hi1, heq⟩ := stmt_head G s "SEMI" ";" _ hs0 ⟨by decide, by decide, by decide⟩
  obtain ⟨s2, h2, hs2, hi2⟩ := emptyStmt_ok s1 rest hs1 G
  refine ⟨s2, ?_, hs2, by simp only [S.ntoks]; omega⟩
  rw [heq]; simp [inSet, h2, S.val, hi1]


theorem sok_jump_simple (st : S) (k v : String) (cls : Cls)
    (hfl : st.flat = [(k, v), ("SEMI", ";")]) (hval : ∀ n, st.val n = mk cls (tc n) []) (hnt : st.ntoks = 2)
    (hfu : st.fuel = 3) (hk : k = "BREAK" ∧ cls = .Break ∨ k = "CONTINUE" ∧ cls = .Continue) : SOK env st := by
  intro s rest F _ hs _ hF
  obtain ⟨G, rfl⟩ : ∃ G, F = G + 1 := ⟨F - 1, by omega⟩
  have hs0 : SeesT env s ((k, v) :: ("SEMI", ";") :: rest) := by simpa [hfl] using hs
  have hkk : k ≠ "CASE" ∧ k ≠ "DEFAULT" ∧ k ≠ "ID" := by
    rcases hk with ⟨rfl, _⟩ | ⟨rfl, _⟩ <;> exact ⟨by decide, by decide, by decide⟩
  obtain ⟨s1, hs1, hi1, heq⟩ := stmt_head G s k v _ hs0 hkk
  obtain ⟨G', rfl⟩ : ∃ G', G = G' + 1 := ⟨G - 1, by omega⟩
  obtain ⟨s2, h2, hs2, _, hi2, _⟩ := advance_spec s1 k v _ hs1
  obtain ⟨s3, h3, hs3, hi3⟩ := expect_same s2 "SEMI" ";" rest hs2
  refine ⟨s3, ?_, hs3, by omega⟩
  rw [heq, hval]
  rcases hk with ⟨rfl, rfl⟩ | ⟨rfl, rfl⟩
  · simp [inSet]
    show pJumpStatement (run G') s1 = _
    simp [pJumpStatement, bnd, h2, h3, pur, tokCoord, tc, hi1]
  · simp [inSet]
    show pJumpStatement (run G') s1 = _
    simp [pJumpStatement, bnd, h2, h3, pur, tokCoord, tc, hi1]

theorem sok_brk : SOK env .brk := sok_jump_simple .brk "BREAK" "break" .Break rfl (fun _ => rfl) rfl rfl (.inl ⟨rfl, rfl⟩)
theorem sok_cont : SOK env .cont := sok_jump_simple .cont "CONTINUE" "continue" .Continue rfl (fun _ => rfl) rfl rfl (.inr ⟨rfl, rfl⟩)

theorem sok_ret_none : SOK env (.ret none) := by
  intro s rest F _ hs _ hF
  obtain ⟨G, rfl⟩ : ∃ G, F = G + 2 := ⟨F - 2, by simp only [S.fuel] at hF; omega⟩
  have hs0 : SeesT env s (("RETURN", "return") :: ("SEMI", ";") :: rest) := by simpa [S.flat] using hs
  obtain ⟨s1, hs1, hi1, heq⟩ := stmt_head (G + 1) s "RETURN" "return" _ hs0 ⟨by decide, by decide, by decide⟩
  obtain ⟨s2, h2, hs2, _, hi2, _⟩ := advance_spec s1 "RETURN" "return" _ hs1
  obtain ⟨s3, h3, hs3, hi3, _⟩ := accept_same s2 "SEMI" ";" rest hs2
  refine ⟨s3, ?_, hs3, by simp only [S.ntoks]; omega⟩
  rw [heq]
  simp [inSet]
  show pJumpStatement (run G) s1 = _
  simp [pJumpStatement, bnd, h2, h3, pur, tokCoord, tc, hi1, S.val]

theorem sok_ret_some (e : X) : SOK env (.ret (some e)) := by
  intro s rest F hwf hs _ hF
  cases hwf with
  | retSome _ hwe =>
    obtain ⟨G, rfl⟩ : ∃ G, F = G + 2 := ⟨F - 2, by simp only [S.fuel] at hF; omega⟩
    simp only [S.fuel] at hF
    have hs0 : SeesT env s (("RETURN", "return") :: (e.flat ++ ("SEMI", ";") :: rest)) := by simpa [S.flat] using hs
    obtain ⟨s1, hs1, hi1, heq⟩ := stmt_head (G + 1) s "RETURN" "return" _ hs0 ⟨by decide, by decide, by decide⟩
    obtain ⟨s2, h2, hs2, _, hi2, _⟩ := advance_spec s1 "RETURN" "return" _ hs1
    obtain ⟨t, r, hfl, ht, _⟩ := FullExpr.flat_heads hwe
    have hne : ∀ k v r', e.flat ++ ("SEMI", ";") :: rest = (k, v) :: r' → k ≠ "SEMI" := by
      intro k v r' h
      rw [hfl] at h; simp only [List.cons_append, List.cons.injEq] at h
      have := (FullExpr.heads_facts _ ht).2.2.2.1
      rw [h.1] at this; exact this
    obtain ⟨s3, h3, hs3, hi3⟩ := accept_other s2 _ "SEMI" hs2 hne
    obtain ⟨s4, h4, hs4, hi4⟩ := parse_full e hwe s3 ("SEMI", ";") rest stopX_semi hs3 G (by omega)
    obtain ⟨s5, h5, hs5, hi5⟩ := expect_same s4 "SEMI" ";" rest hs4
    refine ⟨s5, ?_, hs5, by simp only [S.ntoks]; omega⟩
    have e3 : s3.idx = s.idx + 1 := by omega
    rw [e3] at h4
    rw [heq]
    simp [inSet]
    show pJumpStatement (run G) s1 = _
    simp [pJumpStatement, bnd, h2, h3, h4, h5, pur, tokCoord, tc, hi1, S.val]


theorem stopX_rparen : StopX "RPAREN" := ⟨⟨⟨⟨by decide, by decide⟩, by decide⟩, by decide⟩, by decide⟩

/-- `( X )` after `if` / `while` -/
theorem paren_cond (c : X) (hwc : WFX 0 c) (s : PState) (rest : List Tk) (F : Nat) (hF : c.fuel ≤ F)
    (hs : SeesT env s (("LPAREN", "(") :: (c.flat ++ ("RPAREN", ")") :: rest))) :
    ∃ s1 s2 s3, expect "LPAREN" s = .ok ⟨"LPAREN", "(", s.idx⟩ s1 ∧
      run F .expression s1 = .ok (c.val (s.idx + 1)) s2 ∧
      expect "RPAREN" s2 = .ok ⟨"RPAREN", ")", s.idx + 1 + c.ntoks⟩ s3 ∧
      SeesT env s3 rest ∧ s3.idx = s.idx + 1 + c.ntoks + 1 := by
  obtain ⟨s1, h1, hs1, hi1⟩ := expect_same s "LPAREN" "(" _ hs
  obtain ⟨s2, h2, hs2, hi2⟩ := parse_full c hwc s1 ("RPAREN", ")") rest stopX_rparen hs1 F hF
  obtain ⟨s3, h3, hs3, hi3⟩ := expect_same s2 "RPAREN" ")" rest hs2
  refine ⟨s1, s2, s3, h1, by rw [h2, hi1], by rw [h3]; congr 2; omega, hs3, by omega⟩

theorem sok_ifThen (c : X) (t : S) (iht : SOK env t) : SOK env (.ifThen c t) := by
  intro s rest F hwf hs hel hF
  cases hwf with
  | ifThen _ _ hwc hwt =>
    obtain ⟨G, rfl⟩ : ∃ G, F = G + 2 := ⟨F - 2, by simp only [S.fuel] at hF; omega⟩
    simp only [S.fuel] at hF
    have hs0 : SeesT env s (("IF", "if") :: ("LPAREN", "(") :: (c.flat ++ ("RPAREN", ")") :: (t.flat ++ rest))) := by
      simpa [S.flat, List.append_assoc] using hs
    obtain ⟨s1, hs1, hi1, heq⟩ := stmt_head (G + 1) s "IF" "if" _ hs0 ⟨by decide, by decide, by decide⟩
    obtain ⟨s2, h2, hs2, _, hi2, _⟩ := advance_spec s1 "IF" "if" _ hs1
    obtain ⟨s3, s4, s5, h3, h4, h5, hs5, hi5⟩ := paren_cond c hwc s2 (t.flat ++ rest) G (by omega) hs2
    obtain ⟨s6, h6, hs6, hi6⟩ := body_ok t iht s5 rest G hwt hs5
      (fun ho => hel (by simp [S.openIf])) (by omega)
    obtain ⟨s7, h7, hs7, hi7⟩ := accept_other s6 rest "ELSE" hs6 (hel (by simp [S.openIf]))
    refine ⟨s7, ?_, hs7, by simp only [S.ntoks]; omega⟩
    have e2 : s2.idx = s.idx + 1 := by omega
    have e5 : s5.idx = s.idx + 2 + c.ntoks + 1 := by omega
    rw [e2] at h4; rw [e5] at h6
    rw [heq]
    simp [inSet]
    show pSelectionStatement (run G) s1 = _
    simp [pSelectionStatement, bnd, h2, h3, h4, h5, h6, h7, pur, tokCoord, tc, hi1, S.val]


theorem sok_ifElse (c : X) (t f : S) (iht : SOK env t) (ihf : SOK env f) : SOK env (.ifElse c t f) := by
  intro s rest F hwf hs hel hF
  cases hwf with
  | ifElse _ _ _ hwc hwt hclosed hwf' =>
    obtain ⟨G, rfl⟩ : ∃ G, F = G + 2 := ⟨F - 2, by simp only [S.fuel] at hF; omega⟩
    simp only [S.fuel] at hF
    have hs0 : SeesT env s (("IF", "if") :: ("LPAREN", "(") :: (c.flat ++ ("RPAREN", ")") ::
        (t.flat ++ ("ELSE", "else") :: (f.flat ++ rest)))) := by
      simpa [S.flat, List.append_assoc] using hs
    obtain ⟨s1, hs1, hi1, heq⟩ := stmt_head (G + 1) s "IF" "if" _ hs0 ⟨by decide, by decide, by decide⟩
    obtain ⟨s2, h2, hs2, _, hi2, _⟩ := advance_spec s1 "IF" "if" _ hs1
    obtain ⟨s3, s4, s5, h3, h4, h5, hs5, hi5⟩ := paren_cond c hwc s2 _ G (by omega) hs2
    obtain ⟨s6, h6, hs6, hi6⟩ := body_ok t iht s5 _ G hwt hs5 (fun ho => by rw [hclosed] at ho; cases ho) (by omega)
    obtain ⟨s7, h7, hs7, hi7, _⟩ := accept_same s6 "ELSE" "else" _ hs6
    obtain ⟨s8, h8, hs8, hi8⟩ := body_ok f ihf s7 rest G hwf' hs7 (fun ho => hel (by simpa [S.openIf] using ho)) (by omega)
    refine ⟨s8, ?_, hs8, by simp only [S.ntoks]; omega⟩
    have e2 : s2.idx = s.idx + 1 := by omega
    have e5 : s5.idx = s.idx + 2 + c.ntoks + 1 := by omega
    have e7 : s7.idx = s.idx + 2 + c.ntoks + 1 + t.ntoks + 1 := by omega
    rw [e2] at h4; rw [e5] at h6; rw [e7] at h8
    rw [heq]
    simp [inSet]
    show pSelectionStatement (run G) s1 = _
    simp [pSelectionStatement, bnd, h2, h3, h4, h5, h6, h7, h8, pur, tokCoord, tc, hi1, S.val]

theorem sok_while (c : X) (b : S) (ihb : SOK env b) : SOK env (.while_ c b) := by
  intro s rest F hwf hs hel hF
  cases hwf with
  | while_ _ _ hwc hwb =>
    obtain ⟨G, rfl⟩ : ∃ G, F = G + 2 := ⟨F - 2, by simp only [S.fuel] at hF; omega⟩
    simp only [S.fuel] at hF
    have hs0 : SeesT env s (("WHILE", "while") :: ("LPAREN", "(") :: (c.flat ++ ("RPAREN", ")") :: (b.flat ++ rest))) := by
      simpa [S.flat, List.append_assoc] using hs
    obtain ⟨s1, hs1, hi1, heq⟩ := stmt_head (G + 1) s "WHILE" "while" _ hs0 ⟨by decide, by decide, by decide⟩
    obtain ⟨s2, h2, hs2, _, hi2, _⟩ := advance_spec s1 "WHILE" "while" _ hs1
    obtain ⟨s3, s4, s5, h3, h4, h5, hs5, hi5⟩ := paren_cond c hwc s2 (b.flat ++ rest) G (by omega) hs2
    obtain ⟨s6, h6, hs6, hi6⟩ := body_ok b ihb s5 rest G hwb hs5 (fun ho => hel (by simpa [S.openIf] using ho)) (by omega)
    refine ⟨s6, ?_, hs6, by simp only [S.ntoks]; omega⟩
    have e2 : s2.idx = s.idx + 1 := by omega
    have e5 : s5.idx = s.idx + 2 + c.ntoks + 1 := by omega
    rw [e2] at h4; rw [e5] at h6
    rw [heq]
    simp [inSet]
    show pIterationStatement (run G) s1 = _
    simp [pIterationStatement, bnd, h2, h3, h4, h5, h6, pur, tokCoord, tc, hi1, S.val]

theorem sok_doWhile (b : S) (c : X) (ihb : SOK env b) : SOK env (.doWhile b c) := by
  intro s rest F hwf hs _ hF
  cases hwf with
  | doWhile _ _ hwb hwc =>
    obtain ⟨G, rfl⟩ : ∃ G, F = G + 2 := ⟨F - 2, by simp only [S.fuel] at hF; omega⟩
    simp only [S.fuel] at hF
    have hs0 : SeesT env s (("DO", "do") :: (b.flat ++ ("WHILE", "while") :: ("LPAREN", "(") ::
        (c.flat ++ ("RPAREN", ")") :: ("SEMI", ";") :: rest))) := by
      simpa [S.flat, List.append_assoc] using hs
    obtain ⟨s1, hs1, hi1, heq⟩ := stmt_head (G + 1) s "DO" "do" _ hs0 ⟨by decide, by decide, by decide⟩
    obtain ⟨s2, h2, hs2, _, hi2, _⟩ := advance_spec s1 "DO" "do" _ hs1
    obtain ⟨s3, h3, hs3, hi3⟩ := body_ok b ihb s2 _ G hwb hs2
      (fun _ k v r h => by simp only [List.cons.injEq, Prod.mk.injEq] at h; rw [← h.1.1]; decide) (by omega)
    obtain ⟨s4, h4, hs4, hi4⟩ := expect_same s3 "WHILE" "while" _ hs3
    obtain ⟨s5, s6, s7, h5, h6, h7, hs7, hi7⟩ := paren_cond c hwc s4 (("SEMI", ";") :: rest) G (by omega) hs4
    obtain ⟨s8, h8, hs8, hi8⟩ := expect_same s7 "SEMI" ";" rest hs7
    refine ⟨s8, ?_, hs8, by simp only [S.ntoks]; omega⟩
    have e2 : s2.idx = s.idx + 1 := by omega
    have e4 : s4.idx + 1 = s.idx + 1 + b.ntoks + 2 := by omega
    rw [e2] at h3; rw [e4] at h6
    rw [heq]
    simp [inSet]
    show pIterationStatement (run G) s1 = _
    simp [pIterationStatement, bnd, h2, h3, h4, h5, h6, h7, h8, pur, tokCoord, tc, hi1, S.val]


theorem SL.head_not_else (l : SL) (hwl : WFSL env.ty l) (rest : List Tk) :
    ∀ k v r, l.flat ++ ("RBRACE", "}") :: rest = (k, v) :: r → k ≠ "ELSE" := by
  intro k v r h
  cases hwl with
  | nil => simp only [SL.flat, List.nil_append, List.cons.injEq, Prod.mk.injEq] at h; rw [← h.1.1]; decide
  | cons st l' hws _ =>
    obtain ⟨t, r', hfl, hth⟩ := S.head st hws
    simp only [SL.flat, hfl, List.cons_append, List.append_assoc, List.cons.injEq] at h
    have := (stmtHeads_facts t.1 hth).2.2.1
    rw [h.1] at this; exact this
  | consD dc l' hwd _ _ =>
    obtain ⟨t, r', hfl, _, hne, _⟩ := Dcl.head hwd
    simp only [SL.flat, hfl, List.cons_append, List.cons.injEq] at h
    rw [h.1] at hne; exact hne
  | consP p l' _ =>
    cases p <;> simp only [SL.flat, pragmaFlat, List.cons_append, List.nil_append, List.cons.injEq, Prod.mk.injEq] at h <;>
      (rw [← h.1.1]; decide)

/-- no block item starts with the text of a pragma -/
theorem SL.head_not_pragmastr (l : SL) (hwl : WFSL env.ty l) (t : Tk) (r : List Tk) (h : l.flat = t :: r) :
    t.1 ≠ "PPPRAGMASTR" := by
  cases hwl with
  | nil => simp [SL.flat] at h
  | cons st l' hws _ =>
    obtain ⟨t', r', hfl, hth⟩ := S.head st hws
    simp only [SL.flat, hfl, List.cons_append, List.cons.injEq] at h
    rw [← h.1]
    intro hc
    have := stmtHeads_facts t'.1 hth
    rw [hc] at hth
    revert hth; decide
  | consD dc l' hwd _ _ =>
    obtain ⟨t', r', hfl, hds, _, _⟩ := Dcl.head hwd
    simp only [SL.flat, hfl, List.cons_append, List.cons.injEq] at h
    rw [← h.1]
    intro hc; rw [hc] at hds; revert hds; decide
  | consP p l' _ =>
    cases p <;> simp only [SL.flat, pragmaFlat, List.cons_append, List.nil_append, List.cons.injEq] at h <;>
      (rw [← h.1]; decide)

theorem slok_nil : SLOK env .nil := by
  intro acc s rest F _ hs hF
  obtain ⟨G, rfl⟩ : ∃ G, F = G + 1 := ⟨F - 1, by simp only [SL.fuel] at hF; omega⟩
  have hs0 : SeesT env s (("RBRACE", "}") :: rest) := by simpa [SL.flat] using hs
  obtain ⟨s1, h1, hs1, hi1, _⟩ := peekType_spec s _ hs0
  refine ⟨s1, ?_, hs1, by simp only [SL.ntoks]; omega⟩
  show pBlockItemListLoop (run G) acc s = _
  simp [pBlockItemListLoop, bnd, h1, pur, SL.vals]

theorem slok_cons (st : S) (r : SL) (ihs : SOK env st) (ihr : SLOK env r) : SLOK env (.cons st r) := by
  intro acc s rest F hwf hs hF
  cases hwf with
  | cons _ _ hws hwr =>
    obtain ⟨G, rfl⟩ : ∃ G, F = G + 1 := ⟨F - 1, by simp only [SL.fuel] at hF; omega⟩
    simp only [SL.fuel] at hF
    obtain ⟨t, r', hfl, hth⟩ := S.head st hws
    obtain ⟨_, _, _, hnr, hnd, _⟩ := stmtHeads_facts t.1 hth
    have hs0 : SeesT env s (st.flat ++ (r.flat ++ ("RBRACE", "}") :: rest)) := by
      simpa [SL.flat, List.append_assoc] using hs
    have hs0' : SeesT env s ((t.1, t.2) :: (r' ++ (r.flat ++ ("RBRACE", "}") :: rest))) := by simpa [hfl] using hs0
    obtain ⟨s1, h1, hs1, hi1, _⟩ := peekType_spec s _ hs0'
    obtain ⟨s2, h2, hs2, hi2, _⟩ := peekType_spec s1 _ hs1
    have hs2' : SeesT env s2 (st.flat ++ (r.flat ++ ("RBRACE", "}") :: rest)) := by simpa [hfl] using hs2
    obtain ⟨s3, h3, hs3, hi3⟩ := ihs s2 _ G hws hs2' (fun _ => SL.head_not_else r hwr rest) (by omega)
    obtain ⟨s4, h4, hs4, hi4⟩ := ihr (acc ++ [st.val s2.idx]) s3 rest G hwr hs3 (by omega)
    refine ⟨s4, ?_, hs4, by simp only [SL.ntoks]; omega⟩
    obtain ⟨c, co, fs, hv⟩ := S.val_node st s2.idx
    have e2 : s2.idx = s.idx := by omega
    have e3 : s3.idx = s.idx + st.ntoks := by omega
    rw [e3] at h4
    have hv' : st.val s.idx = .node c co fs := by rw [← e2]; exact hv
    rw [hv] at h3 h4
    show pBlockItemListLoop (run G) acc s = _
    simp [pBlockItemListLoop, bnd, h1, h2, startsDeclaration, pur, hnd, hnr, h3, h4, SL.vals, hv']

theorem slok_consD (dc : Dcl) (r : SL) (ihr : SLOK env r) : SLOK env (.consD dc r) := by
  intro acc s rest F hwf hs hF
  cases hwf with
  | consD _ _ hwd hty hwr =>
    obtain ⟨G, rfl⟩ : ∃ G, F = G + 1 := ⟨F - 1, by simp only [SL.fuel] at hF; omega⟩
    simp only [SL.fuel] at hF
    obtain ⟨t, r', hfl, hds, _, hnr⟩ := Dcl.head hwd
    have hs0 : SeesT env s (dc.flat ++ (r.flat ++ ("RBRACE", "}") :: rest)) := by
      simpa [SL.flat, List.append_assoc] using hs
    have hs0' : SeesT env s ((t.1, t.2) :: (r' ++ (r.flat ++ ("RBRACE", "}") :: rest))) := by simpa [hfl] using hs0
    obtain ⟨s1, h1, hs1, hi1, _⟩ := peekType_spec s _ hs0'
    obtain ⟨s2, h2, hs2, hi2, _⟩ := peekType_spec s1 _ hs1
    have hs2' : SeesT env s2 (dc.flat ++ (r.flat ++ ("RBRACE", "}") :: rest)) := by simpa [hfl] using hs2
    obtain ⟨s3, h3, hs3, hi3⟩ := parse_declaration dc hwd hty s2 _ hs2' G (by omega)
    obtain ⟨s4, h4, hs4, hi4⟩ := ihr (acc ++ dc.vals s2.idx) s3 rest G hwr hs3 (by omega)
    refine ⟨s4, ?_, hs4, by simp only [SL.ntoks]; omega⟩
    have e2 : s2.idx = s.idx := by omega
    have e3 : s3.idx = s.idx + dc.ntoks := by omega
    rw [e3] at h4
    rw [e2] at h3 h4
    have hin : inSet (some t.1) declStart = true := DeclSkel.mem_inSet hds
    show pBlockItemListLoop (run G) acc s = _
    simp [pBlockItemListLoop, bnd, h1, h2, startsDeclaration, pur, hin, hnr, h3, h4, SL.vals]

/-- a `#pragma` line between block items: `_parse_statement` hands it to `_parse_pragma_directive` -/
theorem slok_consP (p : Option String) (r : SL) (ihr : SLOK env r) : SLOK env (.consP p r) := by
  intro acc s rest F hwf hs hF
  cases hwf with
  | consP _ _ hwr =>
    obtain ⟨G, rfl⟩ : ∃ G, F = G + 3 := ⟨F - 3, by simp only [SL.fuel] at hF; omega⟩
    simp only [SL.fuel] at hF
    cases p with
    | none =>
      have hs0 : SeesT env s (("PPPRAGMA", "pragma") :: (r.flat ++ ("RBRACE", "}") :: rest)) := by
        simpa [SL.flat, pragmaFlat, List.append_assoc] using hs
      obtain ⟨s1, h1, hs1, hi1, _⟩ := peekType_spec s _ hs0
      obtain ⟨s2, h2, hs2, hi2, _⟩ := peekType_spec s1 _ hs1
      obtain ⟨s3, h3, hs3, hi3, _⟩ := peekType_spec s2 _ hs2
      obtain ⟨s4, h4, hs4, hi4, _⟩ := peekType_spec s3 _ hs3
      obtain ⟨s5, h5, hs5, _, hi5, _⟩ := advance_spec s4 "PPPRAGMA" "pragma" _ hs4
      -- the token after the directive is not its text
      obtain ⟨k, v, r', hhd, hk⟩ : ∃ k v r', r.flat ++ ("RBRACE", "}") :: rest = (k, v) :: r' ∧ k ≠ "PPPRAGMASTR" := by
        cases hfl : r.flat with
        | nil => exact ⟨_, _, _, rfl, by decide⟩
        | cons t r'' =>
          refine ⟨t.1, t.2, r'' ++ ("RBRACE", "}") :: rest, rfl, ?_⟩
          exact SL.head_not_pragmastr r hwr t r'' hfl
      rw [hhd] at hs5
      obtain ⟨s6, h6, hs6, hi6, _⟩ := peekType_spec s5 _ hs5
      rw [← hhd] at hs6
      obtain ⟨s7, h7, hs7, hi7⟩ := ihr (acc ++ [pragmaVal s.idx none]) s6 rest (G + 2) hwr hs6 (by omega)
      refine ⟨s7, ?_, hs7, by simp only [SL.ntoks, pragmaNtoks]; omega⟩
      have e6 : s6.idx = s.idx + 1 := by omega
      rw [e6] at h7
      have e4 : s4.idx = s.idx := by omega
      have hkb : ((some k : Option String) == some "PPPRAGMASTR") = false := by simpa using hk
      have hdir : run (G + 1) .pragmaDirective s3 = .ok (pragmaVal s.idx none) s6 := by
        show pPragmaDirective (run G) s3 = _
        simp [pPragmaDirective, bnd, h4, h5, h6, hk, pur, tokCoord, tc, e4, pragmaVal]
      have hstmt : run (G + 2) .statement s2 = .ok (pragmaVal s.idx none) s6 := by
        show pStatement (run (G + 1)) s2 = _
        simp [pStatement, bnd, h3, andM, pur, inSet, hdir]
      show pBlockItemListLoop (run (G + 2)) acc s = _
      have hnd : inSet (some "PPPRAGMA") declStart = false := by decide
      simp only [pragmaVal, mk] at hstmt h7
      simp [pBlockItemListLoop, bnd, h1, h2, startsDeclaration, pur, hnd, hstmt, pragmaVal, mk, h7, SL.vals, pragmaNtoks]
    | some str =>
      have hs0 : SeesT env s (("PPPRAGMA", "pragma") :: ("PPPRAGMASTR", str) :: (r.flat ++ ("RBRACE", "}") :: rest)) := by
        simpa [SL.flat, pragmaFlat, List.append_assoc] using hs
      obtain ⟨s1, h1, hs1, hi1, _⟩ := peekType_spec s _ hs0
      obtain ⟨s2, h2, hs2, hi2, _⟩ := peekType_spec s1 _ hs1
      obtain ⟨s3, h3, hs3, hi3, _⟩ := peekType_spec s2 _ hs2
      obtain ⟨s4, h4, hs4, hi4, _⟩ := peekType_spec s3 _ hs3
      obtain ⟨s5, h5, hs5, _, hi5, _⟩ := advance_spec s4 "PPPRAGMA" "pragma" _ hs4
      obtain ⟨s6, h6, hs6, hi6, _⟩ := peekType_spec s5 _ hs5
      obtain ⟨s6', h6', hs6', _, hi6', _⟩ := advance_spec s6 "PPPRAGMASTR" str _ hs6
      obtain ⟨s7, h7, hs7, hi7⟩ := ihr (acc ++ [pragmaVal s.idx (some str)]) s6' rest (G + 2) hwr hs6' (by omega)
      refine ⟨s7, ?_, hs7, by simp only [SL.ntoks, pragmaNtoks]; omega⟩
      have e6 : s6'.idx = s.idx + 2 := by omega
      rw [e6] at h7
      have e5 : s6.idx = s.idx + 1 := by omega
      have hdir : run (G + 1) .pragmaDirective s3 = .ok (pragmaVal s.idx (some str)) s6' := by
        show pPragmaDirective (run G) s3 = _
        simp [pPragmaDirective, bnd, h4, h5, h6, h6', pur, tokCoord, tc, e5, pragmaVal]
      have hstmt : run (G + 2) .statement s2 = .ok (pragmaVal s.idx (some str)) s6' := by
        show pStatement (run (G + 1)) s2 = _
        simp [pStatement, bnd, h3, andM, pur, inSet, hdir]
      show pBlockItemListLoop (run (G + 2)) acc s = _
      have hnd : inSet (some "PPPRAGMA") declStart = false := by decide
      simp only [pragmaVal, mk] at hstmt h7
      simp [pBlockItemListLoop, bnd, h1, h2, startsDeclaration, pur, hnd, hstmt, pragmaVal, mk, h7, SL.vals, pragmaNtoks]

theorem sok_block (items : SL) (ih : SLOK env items) : SOK env (.block items) := by
  intro s rest F hwf hs _ hF
  cases hwf with
  | block _ hwi =>
    obtain ⟨G, rfl⟩ : ∃ G, F = G + 2 := ⟨F - 2, by simp only [S.fuel] at hF; have := hF; omega⟩
    simp only [S.fuel] at hF
    have hs0 : SeesT env s (("LBRACE", "{") :: (items.flat ++ ("RBRACE", "}") :: rest)) := by
      simpa [S.flat, List.append_assoc] using hs
    obtain ⟨s1, hs1, hi1, heq⟩ := stmt_head (G + 1) s "LBRACE" "{" _ hs0 ⟨by decide, by decide, by decide⟩
    obtain ⟨s2, h2, hs2, hi2⟩ := expect_same s1 "LBRACE" "{" _ hs1
    rw [heq]
    simp only [beq_self_eq_true, ↓reduceIte]
    cases items with
    | nil =>
      have hs2' : SeesT env s2 (("RBRACE", "}") :: rest) := by simpa [SL.flat] using hs2
      obtain ⟨s3, h3, hs3, hi3, _⟩ := accept_same s2 "RBRACE" "}" rest hs2'
      refine ⟨s3, ?_, hs3, by simp only [S.ntoks, SL.ntoks]; omega⟩
      show pCompoundStatement (run G) s1 = _
      simp [pCompoundStatement, bnd, h2, h3, pur, tokCoord, tc, hi1, S.val]
    | cons st r =>
      have hws : WFS env.ty st := by cases hwi with | cons _ _ h _ => exact h
      obtain ⟨t, r', hfl, hth⟩ := S.head st hws
      have hnr := (stmtHeads_facts t.1 hth).2.2.2.1
      obtain ⟨s3, h3, hs3, hi3⟩ := accept_other s2 _ "RBRACE" hs2 (by
        intro k v r'' h
        simp only [SL.flat, hfl, List.cons_append, List.append_assoc, List.cons.injEq] at h
        rw [h.1] at hnr; exact hnr)
      obtain ⟨s4, h4, hs4, hi4⟩ := ih [] s3 rest G hwi hs3 (by omega)
      obtain ⟨s5, h5, hs5, hi5⟩ := expect_same s4 "RBRACE" "}" rest hs4
      refine ⟨s5, ?_, hs5, by simp only [S.ntoks]; omega⟩
      have e3 : s3.idx = s.idx + 1 := by omega
      rw [e3] at h4
      show pCompoundStatement (run G) s1 = _
      simp [pCompoundStatement, bnd, h2, h3, h4, h5, pur, tokCoord, tc, hi1, S.val]
    | consD dc r =>
      have hwd : WFDcl dc := by cases hwi with | consD _ _ h _ _ => exact h
      obtain ⟨t, r', hfl, _, _, hnr⟩ := Dcl.head hwd
      obtain ⟨s3, h3, hs3, hi3⟩ := accept_other s2 _ "RBRACE" hs2 (by
        intro k v r'' h
        simp only [SL.flat, hfl, List.cons_append, List.append_assoc, List.cons.injEq] at h
        rw [h.1] at hnr; exact hnr)
      obtain ⟨s4, h4, hs4, hi4⟩ := ih [] s3 rest G hwi hs3 (by omega)
      obtain ⟨s5, h5, hs5, hi5⟩ := expect_same s4 "RBRACE" "}" rest hs4
      refine ⟨s5, ?_, hs5, by simp only [S.ntoks]; omega⟩
      have e3 : s3.idx = s.idx + 1 := by omega
      rw [e3] at h4
      show pCompoundStatement (run G) s1 = _
      simp [pCompoundStatement, bnd, h2, h3, h4, h5, pur, tokCoord, tc, hi1, S.val]
    | consP p r =>
      obtain ⟨s3, h3, hs3, hi3⟩ := accept_other s2 _ "RBRACE" hs2 (by
        intro k v r'' h
        cases p <;> simp only [SL.flat, pragmaFlat, List.cons_append, List.nil_append, List.append_assoc, List.cons.injEq,
          Prod.mk.injEq] at h <;> (rw [← h.1.1]; decide))
      obtain ⟨s4, h4, hs4, hi4⟩ := ih [] s3 rest G hwi hs3 (by omega)
      obtain ⟨s5, h5, hs5, hi5⟩ := expect_same s4 "RBRACE" "}" rest hs4
      refine ⟨s5, ?_, hs5, by simp only [S.ntoks]; omega⟩
      have e3 : s3.idx = s.idx + 1 := by omega
      rw [e3] at h4
      show pCompoundStatement (run G) s1 = _
      simp [pCompoundStatement, bnd, h2, h3, h4, h5, pur, tokCoord, tc, hi1, S.val]

/-! ## labels and `switch` -/

/-- `_parse_statement` on `case` / `default` -/
theorem stmt_label_head (F : Nat) (s : PState) (k v : String) (toks : List Tk) (hs : SeesT env s ((k, v) :: toks))
    (hk : k = "CASE" ∨ k = "DEFAULT") :
    ∃ s1, SeesT env s1 ((k, v) :: toks) ∧ s1.idx = s.idx ∧ run (F + 1) .statement s = run F .labeledStatement s1 := by
  obtain ⟨s1, h1, hs1, hi1, _⟩ := peekType_spec s _ hs
  refine ⟨s1, hs1, hi1, ?_⟩
  show pStatement (run F) s = _
  rcases hk with rfl | rfl <;> simp [pStatement, bnd, h1]

/-- the statement after a label -/
theorem label_body (st : S) (h : SOK env st) (tok : PTok) (s : PState) (rest : List Tk) (F : Nat) (hwf : WFS env.ty st)
    (hs : SeesT env s (st.flat ++ rest)) (hel : st.openIf = true → ∀ k v r, rest = (k, v) :: r → k ≠ "ELSE")
    (hF : st.fuel + 1 ≤ F) :
    ∃ s', labelBody (run F) tok s = .ok (st.val s.idx) s' ∧ SeesT env s' rest ∧ s'.idx = s.idx + st.ntoks := by
  obtain ⟨t, r, hfl, hth⟩ := S.head st hwf
  obtain ⟨_, _, _, _, _, hstart⟩ := stmtHeads_facts t.1 hth
  have hs0 : SeesT env s ((t.1, t.2) :: (r ++ rest)) := by simpa [hfl] using hs
  -- `_starts_statement()` is true, in a state that still sees the statement
  have hst : ∃ s1, startsStatement s = .ok true s1 ∧ SeesT env s1 (st.flat ++ rest) ∧ s1.idx = s.idx := by
    obtain ⟨s1, h1, hs1, hi1, _⟩ := peekType_spec s _ hs0
    rcases hstart with hss | hse
    · exact ⟨s1, by simp [startsStatement, bnd, h1, pur, hss], by simpa [hfl] using hs1, hi1⟩
    · by_cases hss : inSet (some t.1) startsStatementSet = true
      · exact ⟨s1, by simp [startsStatement, bnd, h1, pur, hss], by simpa [hfl] using hs1, hi1⟩
      · obtain ⟨s2, h2, hs2, hi2, _⟩ := peekType_spec s1 _ hs1
        refine ⟨s2, ?_, by simpa [hfl] using hs2, by omega⟩
        simp [startsStatement, bnd, h1, pur, hss, startsExpression, h2, hse]
  obtain ⟨s1, h1, hs1, hi1⟩ := hst
  obtain ⟨s2, h2, hs2, hi2⟩ := body_ok st h s1 rest F hwf hs1 hel hF
  refine ⟨s2, ?_, hs2, by omega⟩
  rw [hi1] at h2
  simp [labelBody, bnd, h1, h2]

theorem stopC_colon : StopC "COLON" := ⟨⟨by decide, by decide⟩, by decide⟩

theorem sok_case (e : X) (st : S) (ih : SOK env st) : SOK env (.case_ e st) := by
  intro s rest F hwf hs hel hF
  cases hwf with
  | case_ _ _ hwe hws =>
    obtain ⟨G, rfl⟩ : ∃ G, F = G + 2 := ⟨F - 2, by simp only [S.fuel] at hF; omega⟩
    simp only [S.fuel] at hF
    have hs0 : SeesT env s (("CASE", "case") :: (e.flat ++ ("COLON", ":") :: (st.flat ++ rest))) := by
      simpa [S.flat, List.append_assoc] using hs
    obtain ⟨s1, hs1, hi1, heq⟩ := stmt_label_head (G + 1) s "CASE" "case" _ hs0 (.inl rfl)
    obtain ⟨s2, h2, hs2, hi2, _⟩ := peekType_spec s1 _ hs1
    obtain ⟨s3, h3, hs3, _, hi3, _⟩ := advance_spec s2 "CASE" "case" _ hs2
    obtain ⟨s4, h4, hs4, hi4⟩ := (all_ok e).c hwe s3 ("COLON", ":") _ stopC_colon hs3 G (by omega)
    obtain ⟨s5, h5, hs5, hi5⟩ := expect_same s4 "COLON" ":" _ hs4
    obtain ⟨s6, h6, hs6, hi6⟩ := label_body st ih ⟨"CASE", "case", s2.idx⟩ s5 rest G hws hs5
      (fun ho => hel (by simpa [S.openIf] using ho)) (by omega)
    refine ⟨s6, ?_, hs6, by simp only [S.ntoks]; omega⟩
    have e3 : s3.idx = s.idx + 1 := by omega
    have e5 : s5.idx = s.idx + 1 + e.ntoks + 1 := by omega
    have e2 : s2.idx = s.idx := by omega
    rw [e3] at h4; rw [e5, e2] at h6
    rw [heq]
    show pLabeledStatement (run G) s1 = _
    simp [pLabeledStatement, bnd, h2, h3, h4, h5, h6, pur, tokCoord, tc, hi1, hi2, S.val]

theorem sok_default (st : S) (ih : SOK env st) : SOK env (.default_ st) := by
  intro s rest F hwf hs hel hF
  cases hwf with
  | default_ _ hws =>
    obtain ⟨G, rfl⟩ : ∃ G, F = G + 2 := ⟨F - 2, by simp only [S.fuel] at hF; omega⟩
    simp only [S.fuel] at hF
    have hs0 : SeesT env s (("DEFAULT", "default") :: ("COLON", ":") :: (st.flat ++ rest)) := by
      simpa [S.flat, List.append_assoc] using hs
    obtain ⟨s1, hs1, hi1, heq⟩ := stmt_label_head (G + 1) s "DEFAULT" "default" _ hs0 (.inr rfl)
    obtain ⟨s2, h2, hs2, hi2, _⟩ := peekType_spec s1 _ hs1
    obtain ⟨s3, h3, hs3, _, hi3, _⟩ := advance_spec s2 "DEFAULT" "default" _ hs2
    obtain ⟨s5, h5, hs5, hi5⟩ := expect_same s3 "COLON" ":" _ hs3
    obtain ⟨s6, h6, hs6, hi6⟩ := label_body st ih ⟨"DEFAULT", "default", s2.idx⟩ s5 rest G hws hs5
      (fun ho => hel (by simpa [S.openIf] using ho)) (by omega)
    refine ⟨s6, ?_, hs6, by simp only [S.ntoks]; omega⟩
    have e5 : s5.idx = s.idx + 2 := by omega
    have e2 : s2.idx = s.idx := by omega
    rw [e5, e2] at h6
    rw [heq]
    show pLabeledStatement (run G) s1 = _
    simp [pLabeledStatement, bnd, h2, h3, h5, h6, pur, tokCoord, tc, hi1, hi2, S.val]

open PycModel.Spec PycModel.SwitchRefine in
/-- expression ASTs are never `case` / `default` nodes -/
theorem xval_not_label (e : X) : ∀ n : Nat, isLabelV (e.val n) = false := by
  induction e with
  | paren e ih => intro n; exact ih (n + 1)
  | _ => intro n; rfl

open PycModel.Spec PycModel.SwitchRefine in
/-- every `case` / `default` statement the parser builds is a label chain (the hypothesis of the
`fix_switch_cases` refinement theorem) -/
theorem sval_shape : ∀ (st : S) (n : Nat), isLabelV (st.val n) = true → ∃ k, LabelChain k (st.val n)
  | .expr e, n, h => by simp [S.val, xval_not_label] at h
  | .empty, _, h => by cases h
  | .block .nil, _, h => by cases h
  | .block (.cons _ _), _, h => by cases h
  | .block (.consD _ _), _, h => by cases h
  | .block (.consP _ _), _, h => by cases h
  | .forD .., _, h => by cases h
  | .ifThen .., _, h => by cases h
  | .ifElse .., _, h => by cases h
  | .while_ .., _, h => by cases h
  | .doWhile .., _, h => by cases h
  | .ret none, _, h => by cases h
  | .ret (some _), _, h => by cases h
  | .brk, _, h => by cases h
  | .cont, _, h => by cases h
  | .switch_ .., _, h => by cases h
  | .for_ .., _, h => by cases h
  | .goto_ _, _, h => by cases h
  | .label .., _, h => by cases h
  | .case_ e st, n, _ => by
    cases hl : isLabelV (st.val (n + 1 + e.ntoks + 1)) with
    | false => exact ⟨1, .caseLeaf _ _ _ hl⟩
    | true =>
      obtain ⟨k, hk⟩ := sval_shape st _ hl
      exact ⟨k + 1, .caseStep _ _ _ _ hk⟩
  | .default_ st, n, _ => by
    cases hl : isLabelV (st.val (n + 2)) with
    | false => exact ⟨1, .defLeaf _ _ hl⟩
    | true =>
      obtain ⟨k, hk⟩ := sval_shape st _ hl
      exact ⟨k + 1, .defStep _ _ _ hk⟩

open PycModel.Spec PycModel.SwitchRefine in
theorem svals_shaped : ∀ (l : SL) (n : Nat), ParserShaped (SL.vals n l)
  | .nil, _ => by intro v hv; simp [SL.vals] at hv
  | .cons st r, n => by
    intro v hv hl
    simp only [SL.vals, List.mem_cons] at hv
    rcases hv with rfl | hv
    · exact sval_shape st n hl
    · exact svals_shaped r _ v hv hl
  | .consD dc r, n => by
    intro v hv hl
    simp only [SL.vals, List.mem_append] at hv
    rcases hv with hv | hv
    · obtain ⟨co, fs, rfl⟩ := Dcl.vals_decl dc n v hv
      cases hl
    · exact svals_shaped r _ v hv hl
  | .consP p r, n => by
    intro v hv hl
    simp only [SL.vals, List.mem_cons] at hv
    rcases hv with rfl | hv
    · cases p <;> cases hl
    · exact svals_shaped r _ v hv hl

theorem xval_not_compound (e : X) : ∀ n : Nat, (e.val n).isCls .Compound = false := by
  induction e with
  | paren e ih => intro n; exact ih (n + 1)
  | _ => intro n; rfl

open PycModel.Spec PycModel.SwitchRefine in
/-- `fix_switch_cases` on the `Switch` node the parser has just built -/
theorem fixSwitch_sval (co : Option Coord) (cond : Val) (b : S) (n : Nat) (s : PState) :
    fixSwitchCases (.node .Switch co [cond, b.val n]) s = .ok (.node .Switch co [cond, switchBodyV (b.val n)]) s := by
  cases b with
  | block items =>
    cases items with
    | nil => exact fixSwitch_empty co _ cond s
    | cons st r => exact fixSwitch_block co _ cond _ (svals_shaped (.cons st r) _) s
    | consD dc r => exact fixSwitch_block co _ cond _ (svals_shaped (.consD dc r) _) s
    | consP p r => exact fixSwitch_block co _ cond _ (svals_shaped (.consP p r) _) s
  | expr e => exact fixSwitch_other co cond _ (xval_not_compound e n) s
  | ret e => cases e <;> exact fixSwitch_other co cond _ rfl s
  | empty => exact fixSwitch_other co cond _ rfl s
  | ifThen _ _ => exact fixSwitch_other co cond _ rfl s
  | ifElse _ _ _ => exact fixSwitch_other co cond _ rfl s
  | while_ _ _ => exact fixSwitch_other co cond _ rfl s
  | doWhile _ _ => exact fixSwitch_other co cond _ rfl s
  | brk => exact fixSwitch_other co cond _ rfl s
  | cont => exact fixSwitch_other co cond _ rfl s
  | case_ _ _ => exact fixSwitch_other co cond _ rfl s
  | default_ _ => exact fixSwitch_other co cond _ rfl s
  | switch_ _ _ => exact fixSwitch_other co cond _ rfl s
  | for_ _ _ _ _ => exact fixSwitch_other co cond _ rfl s
  | forD _ _ _ _ => exact fixSwitch_other co cond _ rfl s
  | goto_ _ => exact fixSwitch_other co cond _ rfl s
  | label _ _ => exact fixSwitch_other co cond _ rfl s

theorem sok_switch (c : X) (b : S) (ihb : SOK env b) : SOK env (.switch_ c b) := by
  intro s rest F hwf hs hel hF
  cases hwf with
  | switch_ _ _ hwc hwb =>
    obtain ⟨G, rfl⟩ : ∃ G, F = G + 2 := ⟨F - 2, by simp only [S.fuel] at hF; omega⟩
    simp only [S.fuel] at hF
    have hs0 : SeesT env s (("SWITCH", "switch") :: ("LPAREN", "(") :: (c.flat ++ ("RPAREN", ")") :: (b.flat ++ rest))) := by
      simpa [S.flat, List.append_assoc] using hs
    obtain ⟨s1, hs1, hi1, heq⟩ := stmt_head (G + 1) s "SWITCH" "switch" _ hs0 ⟨by decide, by decide, by decide⟩
    obtain ⟨s2, h2, hs2, _, hi2, _⟩ := advance_spec s1 "SWITCH" "switch" _ hs1
    obtain ⟨s3, s4, s5, h3, h4, h5, hs5, hi5⟩ := paren_cond c hwc s2 (b.flat ++ rest) G (by omega) hs2
    obtain ⟨s6, h6, hs6, hi6⟩ := body_ok b ihb s5 rest G hwb hs5 (fun ho => hel (by simpa [S.openIf] using ho)) (by omega)
    refine ⟨s6, ?_, hs6, by simp only [S.ntoks]; omega⟩
    have e2 : s2.idx = s.idx + 1 := by omega
    have e5 : s5.idx = s.idx + 2 + c.ntoks + 1 := by omega
    rw [e2] at h4; rw [e5] at h6
    have hfix := fixSwitch_sval (tc s.idx) (c.val (s.idx + 2)) b (s.idx + 2 + c.ntoks + 1) s6
    rw [heq]
    simp [inSet]
    show pSelectionStatement (run G) s1 = _
    simp [pSelectionStatement, bnd, h2, h3, h4, h5, h6, pur, tokCoord, hi1]
    have e1 : s.idx + 1 + 1 = s.idx + 2 := by omega
    rw [e1]
    exact hfix

/-! ## `for`, `goto`, identifier labels -/

theorem stopX_semi' : StopX ("SEMI", ";").1 := stopX_semi

/-- an optional expression followed by `;` or `)` -/
theorem exprOpt_ok (o : Option X) (hw : OWF o) (s : PState) (stop : Tk) (rest : List Tk)
    (hstop : stop.1 = "SEMI" ∨ stop.1 = "RPAREN") (hs : SeesT env s (oflat o ++ stop :: rest)) (F : Nat) (hF : ofuel o ≤ F) :
    ∃ s', exprOpt (run F) s = .ok (oval s.idx o) s' ∧ SeesT env s' (stop :: rest) ∧ s'.idx = s.idx + ont o := by
  have hsx : StopX stop.1 := by
    rcases hstop with h | h
    · rw [h]; exact stopX_semi
    · rw [h]; exact stopX_rparen
  cases o with
  | none =>
    obtain ⟨k, v⟩ := stop
    have hs0 : SeesT env s ((k, v) :: rest) := by simpa [oflat] using hs
    obtain ⟨s1, h1, hs1, hi1, _⟩ := peekType_spec s _ hs0
    have hns : inSet (some k) startsExpressionSet = false := by
      simp only at hstop; rcases hstop with h | h <;> rw [h] <;> decide
    exact ⟨s1, by simp [exprOpt, startsExpression, bnd, h1, hns, pur, oval], hs1, by simpa [ont] using hi1⟩
  | some e =>
    have hwe := hw e rfl
    have hs0 : SeesT env s (e.flat ++ stop :: rest) := by simpa [oflat] using hs
    obtain ⟨t, r, hfl, hst⟩ := head_starts_expr hwe
    have hs0' : SeesT env s (t :: (r ++ stop :: rest)) := by simpa [hfl] using hs0
    obtain ⟨s1, h1, hs1, hi1, _⟩ := peekType_spec s _ hs0'
    have hs1' : SeesT env s1 (e.flat ++ stop :: rest) := by simpa [hfl] using hs1
    obtain ⟨s2, h2, hs2, hi2⟩ := parse_full e hwe s1 stop rest hsx hs1' F (by simpa [ofuel] using hF)
    rw [hi1] at h2
    exact ⟨s2, by simp [exprOpt, startsExpression, bnd, h1, hst, h2, oval, pur], hs2, by simp only [ont]; omega⟩

/-- the first token of an optional expression followed by `;` starts no declaration -/
theorem oflat_semi_head (o : Option X) (hw : OWF o) (rest : List Tk) :
    ∃ t r, oflat o ++ ("SEMI", ";") :: rest = t :: r ∧ inSet (some t.1) declStart = false := by
  cases o with
  | none => exact ⟨("SEMI", ";"), rest, rfl, by decide⟩
  | some e =>
    obtain ⟨t, r, hfl, ht, _⟩ := FullExpr.flat_heads (hw e rfl)
    exact ⟨t, r ++ ("SEMI", ";") :: rest, by simp [oflat, hfl], (FullExpr.heads_facts _ ht).1⟩

theorem sok_for (i c n : Option X) (b : S) (ihb : SOK env b) : SOK env (.for_ i c n b) := by
  intro s rest F hwf hs hel hF
  cases hwf with
  | for_ _ _ _ _ hwi hwc hwn hwb =>
    obtain ⟨G, rfl⟩ : ∃ G, F = G + 2 := ⟨F - 2, by simp only [S.fuel] at hF; omega⟩
    simp only [S.fuel] at hF
    have hs0 : SeesT env s (("FOR", "for") :: ("LPAREN", "(") :: (oflat i ++ ("SEMI", ";") :: (oflat c ++ ("SEMI", ";") ::
        (oflat n ++ ("RPAREN", ")") :: (b.flat ++ rest))))) := by
      simpa [S.flat, List.append_assoc] using hs
    obtain ⟨s1, hs1, hi1, heq⟩ := stmt_head (G + 1) s "FOR" "for" _ hs0 ⟨by decide, by decide, by decide⟩
    obtain ⟨s2, h2, hs2, _, hi2, _⟩ := advance_spec s1 "FOR" "for" _ hs1
    obtain ⟨s3, h3, hs3, hi3⟩ := expect_same s2 "LPAREN" "(" _ hs2
    obtain ⟨t, r, hhd, hnd⟩ := oflat_semi_head i hwi (oflat c ++ ("SEMI", ";") :: (oflat n ++ ("RPAREN", ")") :: (b.flat ++ rest)))
    rw [hhd] at hs3
    obtain ⟨s4, h4, hs4, hi4, _⟩ := peekType_spec s3 _ hs3
    rw [← hhd] at hs4
    obtain ⟨s5, h5, hs5, hi5⟩ := exprOpt_ok i hwi s4 ("SEMI", ";") _ (.inl rfl) hs4 G (by omega)
    obtain ⟨s6, h6, hs6, hi6⟩ := expect_same s5 "SEMI" ";" _ hs5
    obtain ⟨s7, h7, hs7, hi7⟩ := exprOpt_ok c hwc s6 ("SEMI", ";") _ (.inl rfl) hs6 G (by omega)
    obtain ⟨s8, h8, hs8, hi8⟩ := expect_same s7 "SEMI" ";" _ hs7
    obtain ⟨s9, h9, hs9, hi9⟩ := exprOpt_ok n hwn s8 ("RPAREN", ")") _ (.inr rfl) hs8 G (by omega)
    obtain ⟨s10, h10, hs10, hi10⟩ := expect_same s9 "RPAREN" ")" _ hs9
    obtain ⟨s11, h11, hs11, hi11⟩ := body_ok b ihb s10 rest G hwb hs10 (fun ho => hel (by simpa [S.openIf] using ho)) (by omega)
    refine ⟨s11, ?_, hs11, by simp only [S.ntoks]; omega⟩
    have e4 : s4.idx = s.idx + 2 := by omega
    have e6 : s6.idx = s.idx + 2 + ont i + 1 := by omega
    have e8 : s8.idx = s.idx + 2 + ont i + 1 + ont c + 1 := by omega
    have e10 : s10.idx = s.idx + 2 + ont i + 1 + ont c + 1 + ont n + 1 := by omega
    rw [e4] at h5; rw [e6] at h7; rw [e8] at h9; rw [e10] at h11
    rw [heq]
    simp [inSet]
    show pIterationStatement (run G) s1 = _
    simp [pIterationStatement, bnd, h2, h3, startsDeclaration, h4, hnd, h5, h6, h7, h8, h9, h10, h11, pur, tokCoord, tc,
      hi1, S.val]

theorem sok_forD (dc : Dcl) (c n : Option X) (b : S) (ihb : SOK env b) : SOK env (.forD dc c n b) := by
  intro s rest F hwf hs hel hF
  cases hwf with
  | forD _ _ _ _ hwd hty hwc hwn hwb =>
    obtain ⟨G, rfl⟩ : ∃ G, F = G + 2 := ⟨F - 2, by simp only [S.fuel] at hF; omega⟩
    simp only [S.fuel] at hF
    have hs0 : SeesT env s (("FOR", "for") :: ("LPAREN", "(") :: (dc.flat ++ (oflat c ++ ("SEMI", ";") ::
        (oflat n ++ ("RPAREN", ")") :: (b.flat ++ rest))))) := by
      simpa [S.flat, List.append_assoc] using hs
    obtain ⟨s1, hs1, hi1, heq⟩ := stmt_head (G + 1) s "FOR" "for" _ hs0 ⟨by decide, by decide, by decide⟩
    obtain ⟨s2, h2, hs2, _, hi2, _⟩ := advance_spec s1 "FOR" "for" _ hs1
    obtain ⟨s3, h3, hs3, hi3⟩ := expect_same s2 "LPAREN" "(" _ hs2
    obtain ⟨t, r, hfl, hds, _, _⟩ := Dcl.head hwd
    rw [hfl] at hs3
    obtain ⟨s4, h4, hs4, hi4, _⟩ := peekType_spec s3 _ hs3
    rw [← hfl] at hs4
    obtain ⟨s5, h5, hs5, hi5⟩ := parse_declaration dc hwd hty s4 _ hs4 G (by omega)
    obtain ⟨s7, h7, hs7, hi7⟩ := exprOpt_ok c hwc s5 ("SEMI", ";") _ (.inl rfl) hs5 G (by omega)
    obtain ⟨s8, h8, hs8, hi8⟩ := expect_same s7 "SEMI" ";" _ hs7
    obtain ⟨s9, h9, hs9, hi9⟩ := exprOpt_ok n hwn s8 ("RPAREN", ")") _ (.inr rfl) hs8 G (by omega)
    obtain ⟨s10, h10, hs10, hi10⟩ := expect_same s9 "RPAREN" ")" _ hs9
    obtain ⟨s11, h11, hs11, hi11⟩ := body_ok b ihb s10 rest G hwb hs10 (fun ho => hel (by simpa [S.openIf] using ho)) (by omega)
    refine ⟨s11, ?_, hs11, by simp only [S.ntoks]; omega⟩
    have e4 : s4.idx = s.idx + 2 := by omega
    have e5 : s5.idx = s.idx + 2 + dc.ntoks := by omega
    have e8 : s8.idx = s.idx + 2 + dc.ntoks + ont c + 1 := by omega
    have e10 : s10.idx = s.idx + 2 + dc.ntoks + ont c + 1 + ont n + 1 := by omega
    rw [e4] at h5; rw [e5] at h7; rw [e8] at h9; rw [e10] at h11
    have hin : inSet (some t.1) declStart = true := DeclSkel.mem_inSet hds
    rw [heq]
    simp [inSet]
    show pIterationStatement (run G) s1 = _
    simp [pIterationStatement, bnd, h2, h3, startsDeclaration, h4, hin, h5, h7, h8, h9, h10, h11, pur, tokCoord, tc,
      hi1, S.val]

theorem sok_goto (x : String) : SOK env (.goto_ x) := by
  intro s rest F _ hs _ hF
  obtain ⟨G, rfl⟩ : ∃ G, F = G + 2 := ⟨F - 2, by simp only [S.fuel] at hF; omega⟩
  have hs0 : SeesT env s (("GOTO", "goto") :: ("ID", x) :: ("SEMI", ";") :: rest) := by simpa [S.flat] using hs
  obtain ⟨s1, hs1, hi1, heq⟩ := stmt_head (G + 1) s "GOTO" "goto" _ hs0 ⟨by decide, by decide, by decide⟩
  obtain ⟨s2, h2, hs2, _, hi2, _⟩ := advance_spec s1 "GOTO" "goto" _ hs1
  obtain ⟨s3, h3, hs3, hi3⟩ := expect_same s2 "ID" x _ hs2
  obtain ⟨s4, h4, hs4, hi4⟩ := expect_same s3 "SEMI" ";" rest hs3
  refine ⟨s4, ?_, hs4, by simp only [S.ntoks]; omega⟩
  rw [heq]
  simp [inSet]
  show pJumpStatement (run G) s1 = _
  simp [pJumpStatement, bnd, h2, h3, h4, pur, tokCoord, tc, hi1, S.val]

/-- `_parse_statement` on `identifier :` -/
theorem stmt_idlabel_head (F : Nat) (s : PState) (x : String) (toks : List Tk)
    (hs : SeesT env s (("ID", x) :: ("COLON", ":") :: toks)) :
    ∃ s1, SeesT env s1 (("ID", x) :: ("COLON", ":") :: toks) ∧ s1.idx = s.idx ∧
      run (F + 1) .statement s = run F .labeledStatement s1 := by
  obtain ⟨s1, h1, hs1, hi1, _⟩ := peekType_spec s _ hs
  obtain ⟨s2, hp2, hs2, _, hi2, _⟩ := peekK_spec 1 s1 _ ("COLON", ":") hs1 rfl
  refine ⟨s2, hs2, by omega, ?_⟩
  show pStatement (run F) s = _
  simp only [pStatement, bnd, h1, List.head?_cons, Option.map_some, andM, pur]
  simp [pure_bind_P, peek2Is, peekType2, bnd, hp2, pur]

theorem sok_label (x : String) (st : S) (ih : SOK env st) : SOK env (.label x st) := by
  intro s rest F hwf hs hel hF
  cases hwf with
  | label _ _ hws =>
    obtain ⟨G, rfl⟩ : ∃ G, F = G + 2 := ⟨F - 2, by simp only [S.fuel] at hF; omega⟩
    simp only [S.fuel] at hF
    have hs0 : SeesT env s (("ID", x) :: ("COLON", ":") :: (st.flat ++ rest)) := by
      simpa [S.flat, List.append_assoc] using hs
    obtain ⟨s1, hs1, hi1, heq⟩ := stmt_idlabel_head (G + 1) s x _ hs0
    obtain ⟨s2, h2, hs2, hi2, _⟩ := peekType_spec s1 _ hs1
    obtain ⟨s3, h3, hs3, _, hi3, _⟩ := advance_spec s2 "ID" x _ hs2
    obtain ⟨s5, h5, hs5, hi5⟩ := expect_same s3 "COLON" ":" _ hs3
    obtain ⟨s6, h6, hs6, hi6⟩ := label_body st ih ⟨"ID", x, s2.idx⟩ s5 rest G hws hs5
      (fun ho => hel (by simpa [S.openIf] using ho)) (by omega)
    refine ⟨s6, ?_, hs6, by simp only [S.ntoks]; omega⟩
    have e5 : s5.idx = s.idx + 2 := by omega
    have e2 : s2.idx = s.idx := by omega
    rw [e5, e2] at h6
    rw [heq]
    show pLabeledStatement (run G) s1 = _
    simp [pLabeledStatement, bnd, h2, h3, h5, h6, pur, tokCoord, tc, hi1, hi2, S.val]

mutual
theorem all_s : ∀ st : S, SOK env st
  | .expr e => sok_expr e
  | .empty => sok_empty
  | .block items => sok_block items (all_sl items)
  | .ifThen c t => sok_ifThen c t (all_s t)
  | .ifElse c t f => sok_ifElse c t f (all_s t) (all_s f)
  | .while_ c b => sok_while c b (all_s b)
  | .doWhile b c => sok_doWhile b c (all_s b)
  | .ret none => sok_ret_none
  | .ret (some e) => sok_ret_some e
  | .brk => sok_brk
  | .cont => sok_cont
  | .case_ e st => sok_case e st (all_s st)
  | .default_ st => sok_default st (all_s st)
  | .switch_ c b => sok_switch c b (all_s b)
  | .for_ i c n b => sok_for i c n b (all_s b)
  | .forD dc c n b => sok_forD dc c n b (all_s b)
  | .goto_ x => sok_goto x
  | .label x st => sok_label x st (all_s st)
theorem all_sl : ∀ l : SL, SLOK env l
  | .nil => slok_nil
  | .cons st r => slok_cons st r (all_s st) (all_sl r)
  | .consD dc r => slok_consD dc r (all_sl r)
  | .consP p r => slok_consP p r (all_sl r)
end

/-- **Statements nest exactly as the C grammar says.** For every statement `st` of `S` (any size,
any nesting), from every parser state that sees its tokens (followed, if `st` ends with an
`else`-less `if`, by something other than `else`), `_parse_statement` returns `st.val` and consumes
exactly the tokens of `st`. -/
theorem parse_stmt (st : S) (hwf : WFS env.ty st) (s : PState) (rest : List Tk) (hs : SeesT env s (st.flat ++ rest))
    (hel : st.openIf = true → ∀ k v r, rest = (k, v) :: r → k ≠ "ELSE") (F : Nat) (hF : st.fuel ≤ F) :
    ∃ s', run F .statement s = .ok (st.val s.idx) s' ∧ SeesT env s' rest ∧ s'.idx = s.idx + st.ntoks :=
  all_s st s rest F hwf hs hel hF

end PycModel.StmtSkel
