import PycModel.Parser.Core
/-! Facts about the token stream and lexer-pull primitives of the parser model. -/
namespace PycModel

def Res.isCrash {α} : Res α → Bool
  | .err (.crash _ _) => true
  | _ => false

/-- buffer invariant of `_TokenStream`: the read index never runs ahead of the buffer, and every
lexer call appended exactly one buffer entry -/
structure StreamInv (s : PState) : Prop where
  idx_le : s.idx ≤ s.buf.size
  calls : s.lexCalls = s.buf.size

/-- one `lexer.token()` call never raises anything but the lexer's own error (after the
`_pop_scope` fix there is no assertion left to trip) -/
theorem lexToken_no_crash (s : PState) : (lexToken s).isCrash = false := by
  unfold lexToken
  split
  · rfl
  · rfl
  · rfl
  · rfl
  · simp only
    split
    · rfl
    · split
      · split <;> rfl
      · rfl

theorem lexToken_ok_calls (s s' : PState) (t : Option PTok) (h : lexToken s = .ok t s') :
    s'.lexCalls = s.lexCalls + 1 ∧ s'.buf = s.buf ∧ s'.idx = s.idx := by
  unfold lexToken at h
  split at h
  · cases h; simp
  · cases h; simp
  · cases h
  · cases h
  · simp only at h
    split at h
    · cases h; simp
    · split at h
      · split at h <;> (cases h; simp)
      · cases h; simp

end PycModel
