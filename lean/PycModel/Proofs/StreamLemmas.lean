import PycModel.Parser.Core
/-! Facts about the token stream and lexer-pull primitives of the parser model. -/
namespace PycModel

def Res.isCrash {α} : Res α → Bool
  | .err (.crash _ _) => true
  | _ => false

/-- buffer invariant of `_TokenStream`: the read index never runs ahead of the buffer, and every
lexer call appended exactly one buffer entry -/
structure StreamInv (s : PState) : Prop where
  idx_le : s.idx ≤ s.buf.size
  calls : s.lexCalls = s.buf.size

/-- one `lexer.token()` call never raises anything but the lexer's own error (after the
`_pop_scope` fix there is no assertion left to trip) -/
theorem lexToken_no_crash (s : PState) : (lexToken s).isCrash = false := by
  unfold lexToken
  split
  · rfl
  · rfl
  · rfl
  · rfl
  · simp only
    split
    · rfl
    · split
      · split <;> rfl
      · rfl

theorem lexToken_ok_calls (s s' : PState) (t : Option PTok) (h : lexToken s = .ok t s') :
    s'.lexCalls = s.lexCalls + 1 ∧ s'.buf = s.buf ∧ s'.idx = s.idx := by
  unfold lexToken at h
  split at h
  · cases h; simp
  · cases h; simp
  · cases h
  · cases h
  · simp only at h
    split at h
    · cases h; simp
    · split at h
      · split at h <;> (cases h; simp)
      · cases h; simp

end PycModel

namespace PycModel

/-- `_fill` keeps the stream invariant: it never moves the read index and every lexer call it
makes appends exactly one buffer entry (so no token is ever lexed twice, whatever `mark`/`reset`
the parser performs) -/
theorem fill_inv : ∀ (fuel n : Nat) (s s' : PState), StreamInv s → fill fuel n s = .ok () s' →
    StreamInv s' ∧ s'.idx = s.idx ∧ s.buf.size ≤ s'.buf.size := by
  intro fuel
  induction fuel with
  | zero => intro n s s' hi h; simp [fill, pure] at h; cases h; exact ⟨hi, rfl, Nat.le_refl _⟩
  | succ f ih =>
    intro n s s' hi h
    unfold fill at h
    split at h
    · split at h
      · cases h
      · rename_i tok s1 hl
        have hc := lexToken_ok_calls s s1 tok hl
        have hi1 : StreamInv { s1 with buf := s1.buf.push tok } := by
          constructor
          · simp only [Array.size_push]; rw [hc.2.1, hc.2.2]; have := hi.idx_le; omega
          · simp only [Array.size_push]; rw [hc.1, hc.2.1, hi.calls]
        split at h
        · cases h
          refine ⟨hi1, by simp [hc.2.2], ?_⟩
          simp only [Array.size_push]; rw [hc.2.1]; omega
        · have := ih n _ s' hi1 h
          refine ⟨this.1, by rw [this.2.1]; simp [hc.2.2], ?_⟩
          have h3 := this.2.2
          simp only [Array.size_push] at h3
          rw [hc.2.1] at h3; omega
    · cases h; exact ⟨hi, rfl, Nat.le_refl _⟩

/-- `mark`/`reset` never touch the buffer or the lexer: speculation cannot cause re-lexing -/
theorem reset_keeps_buffer (m : Nat) (s s' : PState) (h : reset m s = .ok () s') :
    s'.buf = s.buf ∧ s'.lexCalls = s.lexCalls ∧ s'.raw = s.raw := by
  simp [reset, modifyState] at h
  cases h; simp

end PycModel
