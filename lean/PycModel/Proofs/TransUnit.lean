import PycModel.Proofs.DeclParse
import PycModel.Proofs.Params
import PycModel.Proofs.StmtSkel
/-!
# Function bodies with declarations, function definitions, translation units

Composition of `DeclParse.parse_declaration` (declarations) and `StmtSkel.parse_stmt` (statements)
into whole translation units of the fragment

    translation-unit  := { external-declaration }
    external-decl     := declaration | specifiers declarator compound-body
    compound-body     := '{' { declaration | statement } '}'

(declarations as in `DeclParse`, statements as in `StmtSkel`; declarations at the top level of a
function body).  The end result is `parse_translation_unit`: `parseCore`, the model of
`CParser.parse` on the stripped token stream, returns the `FileAST` the grammar prescribes.
-/
namespace PycModel.TransUnit
open PycModel PycModel.View PycModel.OperandId PycModel.FullExpr PycModel.TypeModify PycModel.DeclSkel PycModel.BuildDecl
  PycModel.DeclParse PycModel.StmtSkel PycModel.Params

variable {env : Env}

/-! ## function bodies -/

def bodyFlat (l : SL) : List Tk := ("LBRACE", "{") :: (l.flat ++ [("RBRACE", "}")])

/-- the `Compound` of a function body whose `{` is at position `n` -/
def bodyVal (n : Nat) (l : SL) : Val :=
  mk .Compound (tc n) [match l with | .nil => .none | _ => .list (SL.vals (n + 1) l)]

theorem bodyVal_eq (n : Nat) (l : SL) : bodyVal n l = S.val n (.block l) := by
  cases l <;> rfl

theorem sl_head {ty : String → Bool} : ∀ (l : SL), WFSL ty l → l ≠ .nil → ∃ t r, l.flat = t :: r ∧ t.1 ≠ "RBRACE"
  | .nil, _, h => absurd rfl h
  | .cons st l, hw, _ => by
    cases hw with
    | cons _ _ hws _ =>
      obtain ⟨t, r, h, hth⟩ := S.head st hws
      exact ⟨t, r ++ l.flat, by simp [SL.flat, h], (stmtHeads_facts t.1 hth).2.2.2.1⟩
  | .consD dc l, hw, _ => by
    cases hw with
    | consD _ _ hwd _ _ =>
      obtain ⟨t, r, h, _, _, hn⟩ := Dcl.head hwd
      exact ⟨t, r ++ l.flat, by simp [SL.flat, h], hn⟩
  | .consP p l, _, _ => by
    cases p with
    | none => exact ⟨("PPPRAGMA", "pragma"), l.flat, by simp [SL.flat, pragmaFlat], by decide⟩
    | some str => exact ⟨("PPPRAGMA", "pragma"), ("PPPRAGMASTR", str) :: l.flat, by simp [SL.flat, pragmaFlat], by decide⟩

/-- **`_parse_compound_statement`** on a function body: declarations and statements in any order,
nested blocks with their own declarations, `for` loops with declarations -/
theorem compound_ok (l : SL) (hw : WFSL env.ty l)
    (s : PState) (rest : List Tk) (hs : SeesT env s (bodyFlat l ++ rest)) (F : Nat) (hF : l.fuel + 2 ≤ F) :
    ∃ s', run F .compoundStatement s = .ok (bodyVal s.idx l) s' ∧ SeesT env s' rest ∧
      s'.idx = s.idx + l.ntoks + 2 := by
  obtain ⟨G, rfl⟩ : ∃ G, F = G + 1 := ⟨F - 1, by omega⟩
  have hs0 : SeesT env s (("LBRACE", "{") :: (l.flat ++ ("RBRACE", "}") :: rest)) := by
    simpa [bodyFlat, List.append_assoc] using hs
  obtain ⟨s1, h1, hs1, hi1⟩ := expect_same s "LBRACE" "{" _ hs0
  by_cases hnil : l = .nil
  · subst hnil
    have hs1' : SeesT env s1 (("RBRACE", "}") :: rest) := by simpa [SL.flat] using hs1
    obtain ⟨s2, h2, hs2, hi2, _⟩ := accept_same s1 "RBRACE" "}" rest hs1'
    refine ⟨s2, ?_, hs2, by simp only [SL.ntoks]; omega⟩
    show pCompoundStatement (run G) s = _
    simp [pCompoundStatement, StmtSkel.bnd, h1, h2, StmtSkel.pur, tokCoord, tc, bodyVal]
  · obtain ⟨t, r', hfl, hnr⟩ := sl_head l hw hnil
    obtain ⟨s2, h2, hs2, hi2⟩ := accept_other s1 _ "RBRACE" hs1 (by
      intro k v r'' h
      simp only [hfl, List.cons_append, List.cons.injEq] at h
      rw [h.1] at hnr; exact hnr)
    obtain ⟨s3, h3, hs3, hi3⟩ := all_sl l [] s2 rest G hw hs2 (by omega)
    obtain ⟨s4, h4, hs4, hi4⟩ := expect_same s3 "RBRACE" "}" rest hs3
    refine ⟨s4, ?_, hs4, by omega⟩
    have e2 : s2.idx = s.idx + 1 := by omega
    rw [e2] at h3
    have hbv : bodyVal s.idx l = mk .Compound (tc s.idx) [.list (SL.vals (s.idx + 1) l)] := by
      cases l with
      | nil => exact absurd rfl hnil
      | cons _ _ => rfl
      | consD _ _ => rfl
      | consP _ _ => rfl
    show pCompoundStatement (run G) s = _
    simp [pCompoundStatement, StmtSkel.bnd, h1, h2, h3, h4, StmtSkel.pur, tokCoord, tc, hbv]

/-! ## external declarations -/

/-- `specifiers declarator compound-body` -/
structure FDef where
  specs : List Tk
  d : D
  body : SL

namespace FDef
def flat (f : FDef) : List Tk := f.specs ++ (f.d.flat ++ bodyFlat f.body)
def ntoks (f : FDef) : Nat := f.specs.length + f.d.ntoks + f.body.ntoks + 2
def fuel (f : FDef) : Nat := max (f.specs.length + 1) (max (f.d.fuel + f.d.ntoks + 5) (f.body.fuel + 2)) + 2
/-- the declarator as `_DeclInfo` (no initializer) -/
def di (n : Nat) (f : FDef) : DI :=
  { ms := f.d.chain (n + f.specs.length), x := dName f.d, tco := dTco (n + f.specs.length) f.d, init := .none }
/-- **the AST of the function definition**: `FuncDef(decl, None, body)` -/
def vals (n : Nat) (f : FDef) : List Val :=
  match typeNames n f.specs with
  | [] => []
  | p0 :: names =>
    [PycModel.mk .FuncDef (f.di n).coord
      [declOut (foldSpec n {} f.specs) p0.2 (specNames p0 names) (f.di n), .none,
       bodyVal (n + f.specs.length + f.d.ntoks) f.body]]
end FDef

structure WFFDef (ty : String → Bool) (f : FDef) : Prop where
  specToks : SpecToks false f.specs
  specVals : SpecVals f.specs
  sawType : sawAfter false f.specs = true
  wfd : WFD f.d
  body : WFSL ty f.body

theorem specs_head {l : List Tk} (hl : SpecToks false l) (hsaw : sawAfter false l = true) :
    ∃ t r, l = t :: r ∧ t.1 ∈ declStart ∧ t.1 ≠ "PPHASH" ∧ t.1 ≠ "PPPRAGMA" ∧ t.1 ≠ "_PRAGMA" ∧ t.1 ≠ "SEMI" ∧
      t.1 ≠ "_STATIC_ASSERT" := by
  cases l with
  | nil => exact absurd rfl (sawAfter_ne_nil hsaw)
  | cons t r =>
    obtain ⟨hk, _⟩ := hl
    refine ⟨t, r, rfl, ?_⟩
    rcases hk with h | h | h | h | h
    · revert h; generalize t.1 = k; revert k; decide
    · revert h; generalize t.1 = k; revert k; decide
    · revert h; generalize t.1 = k; revert k; decide
    · revert h; generalize t.1 = k; revert k; decide
    · rw [h.1]; decide

/-- **`_parse_external_declaration`** on a function definition -/
theorem funcDef_ok (f : FDef) (hwf : WFFDef env.ty f) (hty : env.ty (dName f.d) = false)
    (s : PState) (rest : List Tk) (hs : SeesT env s (f.flat ++ rest)) (F : Nat) (hF : f.fuel ≤ F) :
    ∃ s', run F .externalDeclaration s = .ok (f.vals s.idx) s' ∧ SeesT env s' rest ∧ s'.idx = s.idx + f.ntoks := by
  obtain ⟨G, rfl⟩ : ∃ G, F = G + 1 := ⟨F - 1, by simp only [FDef.fuel] at hF; omega⟩
  simp only [FDef.fuel] at hF
  obtain ⟨t, r, hsp, hk0, hk1, hk2, hk3, hk4, hk5⟩ := specs_head hwf.specToks hwf.sawType
  obtain ⟨k1, v1, r1, hd1, hkd⟩ := declarator_head hwf.wfd
  have hs0 : SeesT env s (f.specs ++ (f.d.flat ++ (bodyFlat f.body ++ rest))) := by
    simpa [FDef.flat, List.append_assoc] using hs
  -- peek, no `;`
  have hs0' : SeesT env s ((t.1, t.2) :: (r ++ (f.d.flat ++ (bodyFlat f.body ++ rest)))) := by rw [hsp] at hs0; simpa using hs0
  obtain ⟨sa, hpa, hsa, _, hia, _⟩ := peek_spec s t.1 t.2 _ hs0'
  obtain ⟨sb, hpb, hsb, hib⟩ := accept_other sa _ "SEMI" hsa (by
    intro k' v' r' h; simp only [List.cons.injEq, Prod.mk.injEq] at h; rw [← h.1.1]; exact hk4)
  have hsb' : SeesT env sb (f.specs ++ (f.d.flat ++ (bodyFlat f.body ++ rest))) := by rw [hsp]; simpa using hsb
  -- the specifiers
  have hfo : FollowSpec (f.d.flat ++ (bodyFlat f.body ++ rest)) := by
    intro k v r' h
    simp only [hd1, List.cons_append, List.cons.injEq, Prod.mk.injEq] at h
    rw [← h.1.1]
    rcases hkd with rfl | rfl | rfl <;> decide
  obtain ⟨s1, h1, hs1, hi1⟩ := specs_loop f.specs {} false false none sb _ G hwf.specToks hfo hsb' (by omega) (fun _ => rfl)
  have hne := sawAfter_ne_nil hwf.sawType
  have hsome : (if (false || !f.specs.isEmpty) = true then some (foldSpec sb.idx {} f.specs) else none) =
      some (foldSpec sb.idx {} f.specs) := by
    cases hsp' : f.specs with
    | nil => exact absurd hsp' hne
    | cons t r => rfl
  rw [hsome, hwf.sawType] at h1
  have h1' : run G (.declSpecsLoop none false none) sb = .ok (some (foldSpec sb.idx {} f.specs), true, firstCoord none sb.idx f.specs) s1 := h1
  -- scan, reset, declarator
  obtain ⟨s3, bsc, hscan, s4, h4, hs4, hi4⟩ := scan_ok f.d hwf.wfd s1 _ hs1 G (by omega)
  obtain ⟨s5, h5, hs5, hi5⟩ := parse_declarator f.d hwf.wfd s4 _ hs4
    (by intro k v r' h; simp only [bodyFlat, List.cons_append, List.cons.injEq, Prod.mk.injEq] at h; rw [← h.1.1]; exact ⟨by decide, by decide⟩)
    G (by omega)
  -- `{` follows
  have hs5' : SeesT env s5 (("LBRACE", "{") :: (f.body.flat ++ [("RBRACE", "}")] ++ rest)) := by
    simpa [bodyFlat, List.append_assoc] using hs5
  obtain ⟨s6, h6, hs6, hi6, _⟩ := peekType_spec s5 _ hs5'
  obtain ⟨s7, h7, hs7, hi7, _⟩ := peekType_spec s6 _ hs6
  obtain ⟨s8, h8, hs8, hi8, _⟩ := peekType_spec s7 _ hs7
  have hs8' : SeesT env s8 (bodyFlat f.body ++ rest) := by simpa [bodyFlat, List.append_assoc] using hs8
  obtain ⟨s9, h9, hs9, hi9⟩ := compound_ok f.body hwf.body s8 rest hs8' G (by omega)
  -- `_build_function_definition`
  obtain ⟨p0, names, htn, hok⟩ := specOK_fold f.specs sb.idx hwf.specToks hwf.specVals hwf.sawType
  have eb : sb.idx = s.idx := by omega
  have e4 : s4.idx = s.idx + f.specs.length := by omega
  have hdi : ({ ms := f.d.chain s4.idx, x := dName f.d, tco := dTco s4.idx f.d, init := .none } : DI) = f.di s.idx := by
    simp [FDef.di, e4]
  obtain ⟨s10, h10, hs10, hi10⟩ := buildDeclarations_ok (foldSpec sb.idx {} f.specs) p0 names hok (f.di s.idx) []
    (by intro d hd; simp only [List.mem_singleton] at hd; subst hd; exact hty) s9 rest hs9
  refine ⟨s10, ?_, hs10, by simp only [FDef.ntoks]; omega⟩
  have hraw : chainVal (f.d.chain s4.idx) (f.d.td s4.idx) = (f.di s.idx).raw := by
    rw [← hdi]; simp [DI.raw, td_eq]
  have hco : ∀ st, valCoord (chainVal (f.d.chain s4.idx) (f.d.td s4.idx)) "decl.coord" st = .ok (f.di s.idx).coord st := by
    intro st; rw [hraw]; exact valCoord_node (f.di s.idx).raw_isNode _ st
  have htyne : (foldSpec sb.idx {} f.specs).type.isEmpty = false := by
    rw [hok.type_eq]; rfl
  have hinfo : ({ decl := chainVal (f.d.chain s4.idx) (f.d.td s4.idx) } : DeclInfo) = (f.di s.idx).info := by
    rw [hraw]; rfl
  have e8 : s8.idx = s.idx + f.specs.length + f.d.ntoks := by omega
  rw [e8] at h9
  rw [eb] at h10 htn
  simp only [List.map_cons, List.map_nil] at h10
  have hc : declStart.contains t.1 = true := by simpa using hk0
  have hlb : (some "LBRACE" : Option String) == some "LBRACE" := rfl
  show pExternalDeclaration (run G) s = _
  have hreset : reset (sb.idx + f.specs.length) s3 = .ok () s4 := by rw [← hi1]; exact h4
  have h5' : run G (.declaratorKind .id true) s4 = .ok (f.di s.idx).raw s5 := by rw [h5, hraw]
  have horm : orM (peekIs "LBRACE") startsDeclaration s5 = .ok true s6 := by
    simp [orM, peekIs, StmtSkel.bnd, h6, StmtSkel.pur]
  have hsd : startsDeclaration s6 = .ok false s7 := by
    simp only [startsDeclaration, StmtSkel.bnd, h7, StmtSkel.pur, List.head?_cons, Option.map_some]
    rfl
  have hne8 : ((some "LBRACE" : Option String) != some "LBRACE") = false := rfl
  have b1 : (t.1 == "PPHASH") = false := by simpa using hk1
  have b2 : (t.1 == "PPPRAGMA" || t.1 == "_PRAGMA") = false := by simp [hk2, hk3]
  have b5 : (t.1 == "_STATIC_ASSERT") = false := by simpa using hk5
  have hnid : ((some "ID" : Option String) != some "ID") = false := rfl
  simp only [pExternalDeclaration, StmtSkel.bnd, hpa, b1, b2, hpb, b5, hc, Bool.false_eq_true, ↓reduceIte, Option.isSome_none,
    Bool.not_true, pDeclSpecs, h1', requireSpec, Bool.false_and, StmtSkel.pur, mark, hscan, hi1, hreset, hnid, h5', horm, hsd, h8,
    List.head?_cons, Option.map_some, hne8, htyne, h9, buildFunctionDefinition]
  have hco' : ∀ st, valCoord (f.di s.idx).raw "decl.coord" st = .ok (f.di s.idx).coord st :=
    fun st => valCoord_node (f.di s.idx).raw_isNode _ st
  have hinfo' : ({ decl := (f.di s.idx).raw } : DeclInfo) = (f.di s.idx).info := rfl
  rw [eb] at hok
  have hntd := hok.no_typedef
  rw [eb]
  simp only [hco', hntd, Bool.false_eq_true, ↓reduceIte, StmtSkel.bnd, hinfo', h10, StmtSkel.pur, FDef.vals, htn]

/-- **`_parse_external_declaration`** on a file-scope declaration (the first declarator goes through
`_parse_declarator` directly, unlike block-scope declarations) -/
theorem extDcl_ok (dc : Dcl) (hwf : WFDcl dc) (hty : ∀ x ∈ dc.names, env.ty x = false)
    (s : PState) (rest : List Tk) (hs : SeesT env s (dc.flat ++ rest)) (F : Nat) (hF : dc.fuel + 2 ≤ F) :
    ∃ s', run F .externalDeclaration s = .ok (dc.vals s.idx) s' ∧ SeesT env s' rest ∧ s'.idx = s.idx + dc.ntoks := by
  obtain ⟨G, rfl⟩ : ∃ G, F = G + 1 := ⟨F - 1, by omega⟩
  simp only [Dcl.fuel] at hF
  have hF1 : dc.first.d.fuel + dc.first.d.ntoks + DeclParse.ifuel dc.first.init + 8 ≤ G := by
    have : dc.first.fuel ≤ G := by omega
    simpa [IDc.fuel] using this
  obtain ⟨t, r, hsp, hk0, hk1, hk2, hk3, hk4, hk5⟩ := specs_head hwf.specToks hwf.sawType
  obtain ⟨k1, v1, r1, hd1, hkd⟩ := declarator_head hwf.first.wfd
  obtain ⟨k2, v2, r2, hhd, hend⟩ := restFlat_head dc.more rest
  -- what follows the first declarator
  let tail1 : List Tk := (match dc.first.init with | none => [] | some e => ("EQUALS", "=") :: e.flat) ++ (k2, v2) :: r2
  have hs0 : SeesT env s (dc.specs ++ (dc.first.d.flat ++ tail1)) := by
    have : dc.flat ++ rest = dc.specs ++ (dc.first.d.flat ++ tail1) := by
      simp only [Dcl.flat, Dcl.body, IDc.flat, List.append_assoc, tail1, ← hhd, List.cons_append, List.nil_append]
      rfl
    rw [this] at hs; exact hs
  have hs0' : SeesT env s ((t.1, t.2) :: (r ++ (dc.first.d.flat ++ tail1))) := by rw [hsp] at hs0; simpa using hs0
  obtain ⟨sa, hpa, hsa, _, hia, _⟩ := peek_spec s t.1 t.2 _ hs0'
  obtain ⟨sb, hpb, hsb, hib⟩ := accept_other sa _ "SEMI" hsa (by
    intro k' v' r' h; simp only [List.cons.injEq, Prod.mk.injEq] at h; rw [← h.1.1]; exact hk4)
  have hsb' : SeesT env sb (dc.specs ++ (dc.first.d.flat ++ tail1)) := by rw [hsp]; simpa using hsb
  have hfo : FollowSpec (dc.first.d.flat ++ tail1) := by
    intro k v r' h
    simp only [hd1, List.cons_append, List.cons.injEq, Prod.mk.injEq] at h
    rw [← h.1.1]
    rcases hkd with rfl | rfl | rfl <;> decide
  obtain ⟨s1, h1, hs1, hi1⟩ := specs_loop dc.specs {} false false none sb _ G hwf.specToks hfo hsb' (by omega) (fun _ => rfl)
  have eb : sb.idx = s.idx := by omega
  rw [eb] at h1 hi1
  have hne := sawAfter_ne_nil hwf.sawType
  have hsome : (if (false || !dc.specs.isEmpty) = true then some (foldSpec s.idx {} dc.specs) else none) =
      some (foldSpec s.idx {} dc.specs) := by
    cases hsp' : dc.specs with
    | nil => exact absurd hsp' hne
    | cons t r => rfl
  rw [hsome, hwf.sawType] at h1
  have h1' : run G (.declSpecsLoop none false none) sb = .ok (some (foldSpec s.idx {} dc.specs), true, firstCoord none s.idx dc.specs) s1 := h1
  obtain ⟨s3, bsc, hscan, s4, h4, hs4, hi4⟩ := scan_ok dc.first.d hwf.first.wfd s1 _ hs1 G (by omega)
  -- the token after the declarator: `=`, `,` or `;`
  obtain ⟨k3, v3, r3, htl, hk3e⟩ : ∃ k v r, tail1 = (k, v) :: r ∧ (k = "EQUALS" ∨ EndsItem k) := by
    cases hin : dc.first.init with
    | none => exact ⟨k2, v2, r2, by simp [tail1, hin], .inr hend⟩
    | some e => exact ⟨"EQUALS", "=", e.flat ++ (k2, v2) :: r2, by simp [tail1, hin], .inl rfl⟩
  have hk3n : k3 ≠ "LBRACKET" ∧ k3 ≠ "LPAREN" ∧ k3 ≠ "LBRACE" ∧ inSet (some k3) declStart = false := by
    rcases hk3e with rfl | rfl | rfl <;> exact ⟨by decide, by decide, by decide, by decide⟩
  obtain ⟨s5, h5, hs5, hi5⟩ := parse_declarator dc.first.d hwf.first.wfd s4 _ hs4
    (by intro k v r' h; rw [htl] at h; simp only [List.cons.injEq, Prod.mk.injEq] at h; rw [← h.1.1]; exact ⟨hk3n.1, hk3n.2.1⟩)
    G (by omega)
  rw [htl] at hs5
  obtain ⟨s6, h6, hs6, hi6, _⟩ := peekType_spec s5 _ hs5
  obtain ⟨s7, h7, hs7, hi7, _⟩ := peekType_spec s6 _ hs6
  have horm : orM (peekIs "LBRACE") startsDeclaration s5 = .ok false s7 := by
    have : (some k3 == some "LBRACE") = false := by simpa using hk3n.2.2.1
    simp [orM, peekIs, StmtSkel.bnd, h6, StmtSkel.pur, this, startsDeclaration, h7, hk3n.2.2.2]
  rw [← htl] at hs7
  -- the initializer and the other declarators: as in `_parse_init_declarator`
  obtain ⟨p0, names, htn, hok⟩ := specOK_fold dc.specs s.idx hwf.specToks hwf.specVals hwf.sawType
  have e4 : s4.idx = s.idx + dc.specs.length := by omega
  have e7 : s7.idx = s.idx + dc.specs.length + dc.first.d.ntoks := by omega
  have hraw : chainVal (dc.first.d.chain s4.idx) (dc.first.d.td s4.idx) = (dc.first.di (s.idx + dc.specs.length)).raw := by
    rw [e4]; simp [DI.raw, IDc.di, td_eq]
  have hnames : ∀ d ∈ dc.dis s.idx, env.ty d.x = false := by
    intro d hd
    apply hty
    simp only [Dcl.dis, List.mem_cons] at hd
    rcases hd with rfl | hd
    · exact List.mem_cons_self
    · have : d.x ∈ (restDIs (s.idx + dc.specs.length + dc.first.ntoks) dc.more).map (·.x) := List.mem_map_of_mem hd
      rw [restDIs_names] at this
      exact List.mem_cons_of_mem _ this
  have b1 : (t.1 == "PPHASH") = false := by simpa using hk1
  have b2 : (t.1 == "PPPRAGMA" || t.1 == "_PRAGMA") = false := by simp [hk2, hk3]
  have b5 : (t.1 == "_STATIC_ASSERT") = false := by simpa using hk5
  have hnid : ((some "ID" : Option String) != some "ID") = false := rfl
  have hc : declStart.contains t.1 = true := by simpa using hk0
  have hreset : reset (s.idx + dc.specs.length) s3 = .ok () s4 := by rw [← hi1]; exact h4
  have h5' : run G (.declaratorKind .id true) s4 = .ok (dc.first.di (s.idx + dc.specs.length)).raw s5 := by rw [h5, hraw]
  cases hin : dc.first.init with
  | none =>
    have htl' : tail1 = (k2, v2) :: r2 := by simp [tail1, hin]
    rw [htl'] at hs7
    obtain ⟨s8, h8, hs8, hi8⟩ := accept_other s7 _ "EQUALS" hs7 (by
      intro k v r' h; simp only [List.cons.injEq, Prod.mk.injEq] at h
      rcases hend with h' | h' <;> rw [← h.1.1, h'] <;> decide)
    rw [← hhd] at hs8
    obtain ⟨s9, h9, hs9, hi9⟩ := initList_loop dc.more [(dc.first.di (s.idx + dc.specs.length)).info] s8 rest G hwf.more hs8 (by omega)
    obtain ⟨s10, h10, hs10, hi10⟩ := buildDeclarations_ok (foldSpec s.idx {} dc.specs) p0 names hok
      (dc.first.di (s.idx + dc.specs.length)) (restDIs (s.idx + dc.specs.length + dc.first.ntoks) dc.more) hnames s9 _ hs9
    obtain ⟨s11, h11, hs11, hi11⟩ := expect_same s10 "SEMI" ";" rest hs10
    refine ⟨s11, ?_, hs11, by simp only [Dcl.ntoks, IDc.ntoks, hin] at *; omega⟩
    have e8 : s8.idx = s.idx + dc.specs.length + dc.first.ntoks := by simp only [IDc.ntoks, hin]; omega
    rw [e8] at h9
    have hinfo : ({ decl := (dc.first.di (s.idx + dc.specs.length)).raw, init := Val.none } : DeclInfo) =
        (dc.first.di (s.idx + dc.specs.length)).info := by simp [DI.info, IDc.di, hin]
    simp only [List.map_cons, List.singleton_append] at h9 h10
    rw [← hinfo] at h9 h10
    show pExternalDeclaration (run G) s = _
    simp only [pExternalDeclaration, StmtSkel.bnd, hpa, b1, b2, hpb, b5, hc, Bool.false_eq_true, ↓reduceIte, Option.isSome_none,
      Bool.not_true, pDeclSpecs, h1', requireSpec, Bool.false_and, StmtSkel.pur, mark, hscan, hi1, hreset, hnid, h5', horm, h8,
      h9, h10, h11, Dcl.vals, htn, Dcl.dis, List.map_cons]
  | some e =>
    have hwe := hwf.first.wfx e hin
    have htl' : tail1 = ("EQUALS", "=") :: (e.flat ++ (k2, v2) :: r2) := by simp [tail1, hin]
    rw [htl'] at hs7
    obtain ⟨s8, h8, hs8, hi8, _⟩ := accept_same s7 "EQUALS" "=" _ hs7
    have hendI : Init.EndsInit (k2, v2).1 := by
      rcases hend with h' | h'
      · exact .inl h'
      · exact .inr (.inl h')
    obtain ⟨G', rfl⟩ : ∃ G', G = G' + 1 := ⟨G - 1, by have := Init.I.fuel_ge e; simp [DeclParse.ifuel, hin] at hF1; omega⟩
    obtain ⟨sA, hA, hsA, hiA⟩ := Init.init_ok e hwe s8 (k2, v2) r2 hendI hs8 (G' + 1) (by simp [DeclParse.ifuel, hin] at hF1; omega)
    have e8 : s8.idx = s.idx + dc.specs.length + dc.first.d.ntoks + 1 := by omega
    rw [e8] at hA
    have hinit : run (G' + 1) .initializer s8 = .ok (e.val (s.idx + dc.specs.length + dc.first.d.ntoks + 1)) sA := hA
    rw [← hhd] at hsA
    obtain ⟨sB, hB, hsB, hiB⟩ := initList_loop dc.more [(dc.first.di (s.idx + dc.specs.length)).info] sA rest (G' + 1) hwf.more hsA (by omega)
    obtain ⟨sC, hC, hsC, hiC⟩ := buildDeclarations_ok (foldSpec s.idx {} dc.specs) p0 names hok
      (dc.first.di (s.idx + dc.specs.length)) (restDIs (s.idx + dc.specs.length + dc.first.ntoks) dc.more) hnames sB _ hsB
    obtain ⟨sD, hD, hsD, hiD⟩ := expect_same sC "SEMI" ";" rest hsC
    refine ⟨sD, ?_, hsD, by simp only [Dcl.ntoks, IDc.ntoks, hin] at *; omega⟩
    have eA : sA.idx = s.idx + dc.specs.length + dc.first.ntoks := by simp only [IDc.ntoks, hin]; omega
    rw [eA] at hB
    have hinfo : (⟨(dc.first.di (s.idx + dc.specs.length)).raw, e.val (s.idx + dc.specs.length + dc.first.d.ntoks + 1), .none⟩ : DeclInfo) =
        (dc.first.di (s.idx + dc.specs.length)).info := by simp [DI.info, IDc.di, hin]
    simp only [List.map_cons, List.singleton_append] at hB hC
    rw [← hinfo] at hB hC
    show pExternalDeclaration (run (G' + 1)) s = _
    simp only [pExternalDeclaration, StmtSkel.bnd, hpa, b1, b2, hpb, b5, hc, Bool.false_eq_true, ↓reduceIte, Option.isSome_none,
      Bool.not_true, pDeclSpecs, h1', requireSpec, Bool.false_and, StmtSkel.pur, mark, hscan, hi1, hreset, hnid, h5', horm, h8,
      Option.isSome_some, hinit, hB, hC, hD, Dcl.vals, htn, Dcl.dis, List.map_cons]

/-! ## function definitions with parameters -/

/-- `specifiers name ( parameters ) compound-body` -/
structure FDefP where
  specs : List Tk
  fd : FD
  body : SL

namespace FDefP
def flat (f : FDefP) : List Tk := f.specs ++ (f.fd.flat ++ bodyFlat f.body)
def ntoks (f : FDefP) : Nat := f.specs.length + f.fd.ntoks + f.body.ntoks + 2
def fuel (f : FDefP) : Nat := max (f.specs.length + 1) (max (f.fd.fuel + 4) (f.body.fuel + 2)) + 2
def vals (n : Nat) (f : FDefP) : List Val :=
  match typeNames n f.specs with
  | [] => []
  | p0 :: names =>
    [PycModel.mk .FuncDef (f.fd.di (n + f.specs.length)).coord
      [declOut (foldSpec n {} f.specs) p0.2 (specNames p0 names) (f.fd.di (n + f.specs.length)), .none,
       bodyVal (n + f.specs.length + f.fd.ntoks) f.body]]
/-- the names of the function and of its parameters -/
def names (f : FDefP) : List String := f.fd.x :: f.fd.params.names
end FDefP

structure WFFDefP (ty : String → Bool) (f : FDefP) : Prop where
  specToks : SpecToks false f.specs
  specVals : SpecVals f.specs
  sawType : sawAfter false f.specs = true
  params : WFPLV ty f.fd.params
  body : WFSL ty f.body

/-- **`_parse_external_declaration`** on a function definition with a prototype parameter list -/
theorem funcDefP_ok (f : FDefP) (hwf : WFFDefP env.ty f) (hty : ∀ x ∈ f.names, env.ty x = false)
    (s : PState) (rest : List Tk) (hs : SeesT env s (f.flat ++ rest)) (F : Nat) (hF : f.fuel ≤ F) :
    ∃ s', run F .externalDeclaration s = .ok (f.vals s.idx) s' ∧ SeesT env s' rest ∧ s'.idx = s.idx + f.ntoks := by
  obtain ⟨G, rfl⟩ : ∃ G, F = G + 1 := ⟨F - 1, by simp only [FDefP.fuel] at hF; omega⟩
  simp only [FDefP.fuel] at hF
  obtain ⟨t, r, hsp, hk0, hk1, hk2, hk3, hk4, hk5⟩ := specs_head hwf.specToks hwf.sawType
  have hs0 : SeesT env s (f.specs ++ (f.fd.flat ++ (bodyFlat f.body ++ rest))) := by
    simpa [FDefP.flat, List.append_assoc] using hs
  have hs0' : SeesT env s ((t.1, t.2) :: (r ++ (f.fd.flat ++ (bodyFlat f.body ++ rest)))) := by rw [hsp] at hs0; simpa using hs0
  obtain ⟨sa, hpa, hsa, _, hia, _⟩ := peek_spec s t.1 t.2 _ hs0'
  obtain ⟨sb, hpb, hsb, hib⟩ := accept_other sa _ "SEMI" hsa (by
    intro k' v' r' h; simp only [List.cons.injEq, Prod.mk.injEq] at h; rw [← h.1.1]; exact hk4)
  have hsb' : SeesT env sb (f.specs ++ (f.fd.flat ++ (bodyFlat f.body ++ rest))) := by rw [hsp]; simpa using hsb
  have hfo : FollowSpec (f.fd.flat ++ (bodyFlat f.body ++ rest)) := by
    intro k v r' h
    simp only [FD.flat, List.cons_append, List.cons.injEq, Prod.mk.injEq] at h
    rw [← h.1.1]; decide
  obtain ⟨s1, h1, hs1, hi1⟩ := specs_loop f.specs {} false false none sb _ G hwf.specToks hfo hsb' (by omega) (fun _ => rfl)
  have eb : sb.idx = s.idx := by omega
  rw [eb] at h1 hi1
  have hne := sawAfter_ne_nil hwf.sawType
  have hsome : (if (false || !f.specs.isEmpty) = true then some (foldSpec s.idx {} f.specs) else none) =
      some (foldSpec s.idx {} f.specs) := by
    cases hsp' : f.specs with
    | nil => exact absurd hsp' hne
    | cons t r => rfl
  rw [hsome, hwf.sawType] at h1
  have h1' : run G (.declSpecsLoop none false none) sb = .ok (some (foldSpec s.idx {} f.specs), true, firstCoord none s.idx f.specs) s1 := h1
  -- scan: no stars, the identifier
  have hs1' : SeesT env s1 (("ID", f.fd.x) :: (("LPAREN", "(") :: (f.fd.params.flat ++ [("RPAREN", ")")]) ++ (bodyFlat f.body ++ rest))) := by
    simpa [FD.flat, List.append_assoc] using hs1
  obtain ⟨G1, rfl⟩ : ∃ G1, G = G1 + 1 := ⟨G - 1, by omega⟩
  obtain ⟨sc, hc, hsc, hic⟩ := scanStars_loop [] s1
    (("ID", f.fd.x) :: (("LPAREN", "(") :: (f.fd.params.flat ++ [("RPAREN", ")")]) ++ (bodyFlat f.body ++ rest))) G1
    (by intro q hq; cases hq)
    (by intro k v r' h; simp only [List.cons.injEq, Prod.mk.injEq] at h; rw [← h.1.1]; exact ⟨by decide, by decide⟩)
    (by simpa [starsFlat] using hs1') (by simp [starsNtoks]; omega)
  obtain ⟨sd, hd, hsd, _, hid, _⟩ := peek_spec sc "ID" f.fd.x _ hsc
  obtain ⟨s3, h3, hs3, _, hi3, _⟩ := advance_spec sd "ID" f.fd.x _ hsd
  have hscan : run (G1 + 1) .scanDeclaratorNameInfo s1 = .ok (some "ID", false) s3 := by
    show pScanDeclaratorNameInfo (run G1) s1 = _
    simp [pScanDeclaratorNameInfo, StmtSkel.bnd, hc, hd, h3, StmtSkel.pur]
  simp only [starsNtoks] at hic
  obtain ⟨s4, h4, hs4, hi4⟩ := reset_to s1 s3 _ _ hs1 hs3 (by omega)
  have hs4' : SeesT env s4 (f.fd.flat ++ ("LBRACE", "{") :: (f.body.flat ++ [("RBRACE", "}")] ++ rest)) := by
    simpa [bodyFlat, List.append_assoc] using hs4
  obtain ⟨s5, h5, hs5, hi5⟩ := fdeclarator_ok f.fd hwf.params
    (fun x hx => hty x (by simp only [FDefP.names, List.mem_cons]; exact .inr hx)) s4 _ hs4' (G1 + 1) (by omega)
  obtain ⟨s6, h6, hs6, hi6, _⟩ := peekType_spec s5 _ hs5
  obtain ⟨s7, h7, hs7, hi7, _⟩ := peekType_spec s6 _ hs6
  obtain ⟨s8, h8, hs8, hi8, _⟩ := peekType_spec s7 _ hs7
  have hs8' : SeesT env s8 (bodyFlat f.body ++ rest) := by simpa [bodyFlat, List.append_assoc] using hs8
  obtain ⟨s9, h9, hs9, hi9⟩ := compound_ok f.body hwf.body s8 rest hs8' (G1 + 1) (by omega)
  obtain ⟨p0, names, htn, hok⟩ := specOK_fold f.specs s.idx hwf.specToks hwf.specVals hwf.sawType
  have e4 : s4.idx = s.idx + f.specs.length := by omega
  rw [e4] at h5
  obtain ⟨s10, h10, hs10, hi10⟩ := buildDeclarations_ok (foldSpec s.idx {} f.specs) p0 names hok (f.fd.di (s.idx + f.specs.length)) []
    (by intro d hd; simp only [List.mem_singleton] at hd; subst hd; exact hty _ List.mem_cons_self) s9 rest hs9
  refine ⟨s10, ?_, hs10, by simp only [FDefP.ntoks]; omega⟩
  have htyne : (foldSpec s.idx {} f.specs).type.isEmpty = false := by rw [hok.type_eq]; rfl
  have e8 : s8.idx = s.idx + f.specs.length + f.fd.ntoks := by omega
  rw [e8] at h9
  simp only [List.map_cons, List.map_nil] at h10
  have hc' : declStart.contains t.1 = true := by simpa using hk0
  have hreset : reset (s.idx + f.specs.length) s3 = .ok () s4 := by rw [← hi1]; exact h4
  have horm : orM (peekIs "LBRACE") startsDeclaration s5 = .ok true s6 := by
    simp [orM, peekIs, StmtSkel.bnd, h6, StmtSkel.pur]
  have hsd' : startsDeclaration s6 = .ok false s7 := by
    simp only [startsDeclaration, StmtSkel.bnd, h7, StmtSkel.pur, List.head?_cons, Option.map_some]
    rfl
  have hne8 : ((some "LBRACE" : Option String) != some "LBRACE") = false := rfl
  have b1 : (t.1 == "PPHASH") = false := by simpa using hk1
  have b2 : (t.1 == "PPPRAGMA" || t.1 == "_PRAGMA") = false := by simp [hk2, hk3]
  have b5 : (t.1 == "_STATIC_ASSERT") = false := by simpa using hk5
  have hnid : ((some "ID" : Option String) != some "ID") = false := rfl
  have hco' : ∀ st, valCoord (f.fd.di (s.idx + f.specs.length)).raw "decl.coord" st = .ok (f.fd.di (s.idx + f.specs.length)).coord st :=
    fun st => valCoord_node (f.fd.di (s.idx + f.specs.length)).raw_isNode _ st
  have hinfo' : ({ decl := (f.fd.di (s.idx + f.specs.length)).raw } : DeclInfo) = (f.fd.di (s.idx + f.specs.length)).info := rfl
  have hntd := hok.no_typedef
  show pExternalDeclaration (run (G1 + 1)) s = _
  simp only [pExternalDeclaration, StmtSkel.bnd, hpa, b1, b2, hpb, b5, hc', Bool.false_eq_true, ↓reduceIte, Option.isSome_none,
    Bool.not_true, pDeclSpecs, h1', requireSpec, Bool.false_and, StmtSkel.pur, mark, hscan, hi1, hreset, hnid, h5, horm, hsd', h8,
    List.head?_cons, Option.map_some, hne8, htyne, h9, buildFunctionDefinition, hco', hntd, hinfo', h10, FDefP.vals, htn]

/-! ## prototypes at file scope -/

/-- `specifiers name ( parameters ) {, init-declarator} ;` -/
structure Proto where
  specs : List Tk
  fd : FD
  more : List IDc

namespace Proto
def flat (p : Proto) : List Tk := p.specs ++ (p.fd.flat ++ (restFlat p.more ++ [("SEMI", ";")]))
def ntoks (p : Proto) : Nat := p.specs.length + p.fd.ntoks + restNtoks p.more + 1
def fuel (p : Proto) : Nat := max (p.specs.length + 1) (max (p.fd.fuel + 4) (restFuel p.more)) + 3
/-- the declared names: the function and the other declarators (not the parameters) -/
def names (p : Proto) : List String := p.fd.x :: p.more.map fun it => dName it.d
def dis (n : Nat) (p : Proto) : List DI :=
  p.fd.di (n + p.specs.length) :: restDIs (n + p.specs.length + p.fd.ntoks) p.more
def vals (n : Nat) (p : Proto) : List Val :=
  match typeNames n p.specs with
  | [] => []
  | p0 :: names => (p.dis n).map (declOut (foldSpec n {} p.specs) p0.2 (specNames p0 names))
end Proto

structure WFProto (ty : String → Bool) (p : Proto) : Prop where
  specToks : SpecToks false p.specs
  specVals : SpecVals p.specs
  sawType : sawAfter false p.specs = true
  params : WFPLV ty p.fd.params
  more : ∀ it ∈ p.more, WFI it

/-- **`_parse_external_declaration`** on a prototype: the `Decl` carries the `FuncDecl` with its
`ParamList`; the parameter names are *not* registered -/
theorem extProto_ok (p : Proto) (hwf : WFProto env.ty p) (hty : ∀ x ∈ p.names, env.ty x = false)
    (s : PState) (rest : List Tk) (hs : SeesT env s (p.flat ++ rest)) (F : Nat) (hF : p.fuel ≤ F) :
    ∃ s', run F .externalDeclaration s = .ok (p.vals s.idx) s' ∧ SeesT env s' rest ∧ s'.idx = s.idx + p.ntoks := by
  obtain ⟨G, rfl⟩ : ∃ G, F = G + 1 := ⟨F - 1, by simp only [Proto.fuel] at hF; omega⟩
  simp only [Proto.fuel] at hF
  obtain ⟨t, r, hsp, hk0, hk1, hk2, hk3, hk4, hk5⟩ := specs_head hwf.specToks hwf.sawType
  obtain ⟨k2, v2, r2, hhd, hend⟩ := restFlat_head p.more rest
  have hs0 : SeesT env s (p.specs ++ (p.fd.flat ++ (k2, v2) :: r2)) := by
    have : p.flat ++ rest = p.specs ++ (p.fd.flat ++ (k2, v2) :: r2) := by
      simp only [Proto.flat, List.append_assoc, ← hhd, List.cons_append, List.nil_append]
    rw [this] at hs; exact hs
  have hs0' : SeesT env s ((t.1, t.2) :: (r ++ (p.fd.flat ++ (k2, v2) :: r2))) := by rw [hsp] at hs0; simpa using hs0
  obtain ⟨sa, hpa, hsa, _, hia, _⟩ := peek_spec s t.1 t.2 _ hs0'
  obtain ⟨sb, hpb, hsb, hib⟩ := accept_other sa _ "SEMI" hsa (by
    intro k' v' r' h; simp only [List.cons.injEq, Prod.mk.injEq] at h; rw [← h.1.1]; exact hk4)
  have hsb' : SeesT env sb (p.specs ++ (p.fd.flat ++ (k2, v2) :: r2)) := by rw [hsp]; simpa using hsb
  have hfo : FollowSpec (p.fd.flat ++ (k2, v2) :: r2) := by
    intro k v r' h
    simp only [FD.flat, List.cons_append, List.cons.injEq, Prod.mk.injEq] at h
    rw [← h.1.1]; decide
  obtain ⟨s1, h1, hs1, hi1⟩ := specs_loop p.specs {} false false none sb _ G hwf.specToks hfo hsb' (by omega) (fun _ => rfl)
  have eb : sb.idx = s.idx := by omega
  rw [eb] at h1 hi1
  have hne := sawAfter_ne_nil hwf.sawType
  have hsome : (if (false || !p.specs.isEmpty) = true then some (foldSpec s.idx {} p.specs) else none) =
      some (foldSpec s.idx {} p.specs) := by
    cases hsp' : p.specs with
    | nil => exact absurd hsp' hne
    | cons t r => rfl
  rw [hsome, hwf.sawType] at h1
  have h1' : run G (.declSpecsLoop none false none) sb = .ok (some (foldSpec s.idx {} p.specs), true, firstCoord none s.idx p.specs) s1 := h1
  -- scan: no stars, the identifier
  have hs1' : SeesT env s1 (("ID", p.fd.x) :: (("LPAREN", "(") :: (p.fd.params.flat ++ [("RPAREN", ")")]) ++ (k2, v2) :: r2)) := by
    simpa [FD.flat, List.append_assoc] using hs1
  obtain ⟨G1, rfl⟩ : ∃ G1, G = G1 + 1 := ⟨G - 1, by omega⟩
  obtain ⟨sc, hc, hsc, hic⟩ := scanStars_loop [] s1
    (("ID", p.fd.x) :: (("LPAREN", "(") :: (p.fd.params.flat ++ [("RPAREN", ")")]) ++ (k2, v2) :: r2)) G1
    (by intro q hq; cases hq)
    (by intro k v r' h; simp only [List.cons.injEq, Prod.mk.injEq] at h; rw [← h.1.1]; exact ⟨by decide, by decide⟩)
    (by simpa [starsFlat] using hs1') (by simp [starsNtoks]; omega)
  obtain ⟨sd, hd, hsd, _, hid, _⟩ := peek_spec sc "ID" p.fd.x _ hsc
  obtain ⟨s3, h3, hs3, _, hi3, _⟩ := advance_spec sd "ID" p.fd.x _ hsd
  have hscan : run (G1 + 1) .scanDeclaratorNameInfo s1 = .ok (some "ID", false) s3 := by
    show pScanDeclaratorNameInfo (run G1) s1 = _
    simp [pScanDeclaratorNameInfo, StmtSkel.bnd, hc, hd, h3, StmtSkel.pur]
  simp only [starsNtoks] at hic
  obtain ⟨s4, h4, hs4, hi4⟩ := reset_to s1 s3 _ _ hs1 hs3 (by omega)
  have hendP : EndsProto (k2, v2).1 := by
    rcases hend with h' | h'
    · exact .inr h'
    · exact .inl h'
  obtain ⟨s5, h5, hs5, hi5⟩ := fdeclarator_proto p.fd hwf.params s4 (k2, v2) r2 hendP hs4 (G1 + 1) (by omega)
  have hk2n : k2 ≠ "LBRACE" ∧ inSet (some k2) declStart = false ∧ k2 ≠ "EQUALS" := by
    rcases hend with rfl | rfl <;> exact ⟨by decide, by decide, by decide⟩
  obtain ⟨s6, h6, hs6, hi6, _⟩ := peekType_spec s5 _ hs5
  obtain ⟨s7, h7, hs7, hi7, _⟩ := peekType_spec s6 _ hs6
  have horm : orM (peekIs "LBRACE") startsDeclaration s5 = .ok false s7 := by
    have : (some k2 == some "LBRACE") = false := by simpa using hk2n.1
    simp [orM, peekIs, StmtSkel.bnd, h6, StmtSkel.pur, this, startsDeclaration, h7, hk2n.2.1]
  obtain ⟨s8, h8, hs8, hi8⟩ := accept_other s7 _ "EQUALS" hs7 (by
    intro k v r' h; simp only [List.cons.injEq, Prod.mk.injEq] at h; rw [← h.1.1]; exact hk2n.2.2)
  rw [← hhd] at hs8
  obtain ⟨s9, h9, hs9, hi9⟩ := initList_loop p.more [(p.fd.di (s.idx + p.specs.length)).info] s8 rest (G1 + 1) hwf.more hs8 (by omega)
  obtain ⟨p0, names, htn, hok⟩ := specOK_fold p.specs s.idx hwf.specToks hwf.specVals hwf.sawType
  have hnames : ∀ d ∈ p.dis s.idx, env.ty d.x = false := by
    intro d hd
    apply hty
    simp only [Proto.dis, List.mem_cons] at hd
    rcases hd with rfl | hd
    · exact List.mem_cons_self
    · have : d.x ∈ (restDIs (s.idx + p.specs.length + p.fd.ntoks) p.more).map (·.x) := List.mem_map_of_mem hd
      rw [restDIs_names] at this
      exact List.mem_cons_of_mem _ this
  obtain ⟨s10, h10, hs10, hi10⟩ := buildDeclarations_ok (foldSpec s.idx {} p.specs) p0 names hok
    (p.fd.di (s.idx + p.specs.length)) (restDIs (s.idx + p.specs.length + p.fd.ntoks) p.more) hnames s9 _ hs9
  obtain ⟨s11, h11, hs11, hi11⟩ := expect_same s10 "SEMI" ";" rest hs10
  refine ⟨s11, ?_, hs11, by simp only [Proto.ntoks]; omega⟩
  have e4 : s4.idx = s.idx + p.specs.length := by omega
  rw [e4] at h5
  have e8 : s8.idx = s.idx + p.specs.length + p.fd.ntoks := by omega
  rw [e8] at h9
  have hinfo : ({ decl := (p.fd.di (s.idx + p.specs.length)).raw, init := Val.none } : DeclInfo) =
      (p.fd.di (s.idx + p.specs.length)).info := rfl
  simp only [List.map_cons, List.singleton_append] at h9 h10
  rw [← hinfo] at h9 h10
  have hc' : declStart.contains t.1 = true := by simpa using hk0
  have hreset : reset (s.idx + p.specs.length) s3 = .ok () s4 := by rw [← hi1]; exact h4
  have b1 : (t.1 == "PPHASH") = false := by simpa using hk1
  have b2 : (t.1 == "PPPRAGMA" || t.1 == "_PRAGMA") = false := by simp [hk2, hk3]
  have b5 : (t.1 == "_STATIC_ASSERT") = false := by simpa using hk5
  have hnid : ((some "ID" : Option String) != some "ID") = false := rfl
  show pExternalDeclaration (run (G1 + 1)) s = _
  simp only [pExternalDeclaration, StmtSkel.bnd, hpa, b1, b2, hpb, b5, hc', Bool.false_eq_true, ↓reduceIte, Option.isSome_none,
    Bool.not_true, pDeclSpecs, h1', requireSpec, Bool.false_and, StmtSkel.pur, mark, hscan, hi1, hreset, hnid, h5, horm, h8,
    h9, h10, h11, Proto.vals, htn, Proto.dis, List.map_cons]

/-! ## translation units -/

inductive Ext where
  | decl (dc : Dcl)
  | fdef (f : FDef)
  | fdefp (f : FDefP)
  | proto (p : Proto)

namespace Ext
def flat : Ext → List Tk
  | .decl dc => dc.flat
  | .fdef f => f.flat
  | .fdefp f => f.flat
  | .proto p => p.flat
def ntoks : Ext → Nat
  | .decl dc => dc.ntoks
  | .fdef f => f.ntoks
  | .fdefp f => f.ntoks
  | .proto p => p.ntoks
def vals (n : Nat) : Ext → List Val
  | .decl dc => dc.vals n
  | .fdef f => f.vals n
  | .fdefp f => f.vals n
  | .proto p => p.vals n
def fuel : Ext → Nat
  | .decl dc => dc.fuel + 2
  | .fdef f => f.fuel
  | .fdefp f => f.fuel
  | .proto p => p.fuel
end Ext

def WFExt (ty : String → Bool) : Ext → Prop
  | .decl dc => WFDcl dc
  | .fdef f => WFFDef ty f
  | .fdefp f => WFFDefP ty f
  | .proto p => WFProto ty p

def extsFlat : List Ext → List Tk
  | [] => []
  | e :: r => e.flat ++ extsFlat r
def extsNtoks : List Ext → Nat
  | [] => 0
  | e :: r => e.ntoks + extsNtoks r
/-- the external declarations of the `FileAST`, in source order -/
def extsVals : Nat → List Ext → List Val
  | _, [] => []
  | n, e :: r => e.vals n ++ extsVals (n + e.ntoks) r
def extsFuel : List Ext → Nat
  | [] => 1
  | e :: r => max e.fuel (extsFuel r) + 1

theorem ext_ok (e : Ext) (hwf : WFExt env.ty e) (hty : ∀ x, env.ty x = false) (s : PState) (rest : List Tk)
    (hs : SeesT env s (e.flat ++ rest)) (F : Nat) (hF : e.fuel ≤ F) :
    ∃ s', run F .externalDeclaration s = .ok (e.vals s.idx) s' ∧ SeesT env s' rest ∧ s'.idx = s.idx + e.ntoks := by
  cases e with
  | decl dc => exact extDcl_ok dc hwf (fun x _ => hty x) s rest hs F hF
  | fdef f => exact funcDef_ok f hwf (hty _) s rest hs F hF
  | fdefp f => exact funcDefP_ok f hwf (fun x _ => hty x) s rest hs F hF
  | proto p => exact extProto_ok p hwf (fun x _ => hty x) s rest hs F hF

theorem ext_head {ty : String → Bool} : ∀ (e : Ext), WFExt ty e → ∃ t r, e.flat = t :: r
  | .decl dc, hw => by obtain ⟨t, r, h, _⟩ := Dcl.head hw; exact ⟨t, r, h⟩
  | .fdef f, hw => by
    obtain ⟨t, r, hsp, _⟩ := specs_head hw.specToks hw.sawType
    exact ⟨t, r ++ (f.d.flat ++ bodyFlat f.body), by show Ext.flat (.fdef f) = _; simp only [Ext.flat, FDef.flat, hsp]; rfl⟩
  | .fdefp f, hw => by
    obtain ⟨t, r, hsp, _⟩ := specs_head hw.specToks hw.sawType
    exact ⟨t, r ++ (f.fd.flat ++ bodyFlat f.body), by show Ext.flat (.fdefp f) = _; simp only [Ext.flat, FDefP.flat, hsp]; rfl⟩
  | .proto p, hw => by
    obtain ⟨t, r, hsp, _⟩ := specs_head hw.specToks hw.sawType
    exact ⟨t, r ++ (p.fd.flat ++ (restFlat p.more ++ [("SEMI", ";")])), by
      show Ext.flat (.proto p) = _; simp only [Ext.flat, Proto.flat, hsp]; rfl⟩

/-- **`_parse_translation_unit`** -/
theorem tu_loop : ∀ (l : List Ext) (acc : List Val) (s : PState) (F : Nat), (∀ e ∈ l, WFExt env.ty e) → (∀ x, env.ty x = false) →
    SeesT env s (extsFlat l) → extsFuel l ≤ F →
    ∃ s', run F (.translationUnitLoop acc) s = .ok (acc ++ extsVals s.idx l) s' ∧ SeesT env s' [] ∧
      s'.idx = s.idx + extsNtoks l
  | [], acc, s, F, _, _, hs, hF => by
    obtain ⟨G, rfl⟩ : ∃ G, F = G + 1 := ⟨F - 1, by simp only [extsFuel] at hF; omega⟩
    obtain ⟨s1, h1, hs1, _, hi1, _⟩ := peek_end s hs
    refine ⟨s1, ?_, hs1, by simp only [extsNtoks]; omega⟩
    show pTranslationUnitLoop (run G) acc s = _
    simp [pTranslationUnitLoop, StmtSkel.bnd, h1, StmtSkel.pur, extsVals]
  | e :: l, acc, s, F, hw, hty, hs, hF => by
    obtain ⟨G, rfl⟩ : ∃ G, F = G + 1 := ⟨F - 1, by simp only [extsFuel] at hF; omega⟩
    simp only [extsFuel] at hF
    obtain ⟨t, r, hfl⟩ := ext_head e (hw e List.mem_cons_self)
    have hs0 : SeesT env s (e.flat ++ extsFlat l) := by simpa [extsFlat] using hs
    have hs0' : SeesT env s ((t.1, t.2) :: (r ++ extsFlat l)) := by simpa [hfl] using hs0
    obtain ⟨s1, h1, hs1, _, hi1, _⟩ := peek_spec s t.1 t.2 _ hs0'
    have hs1' : SeesT env s1 (e.flat ++ extsFlat l) := by simpa [hfl] using hs1
    obtain ⟨s2, h2, hs2, hi2⟩ := ext_ok e (hw e List.mem_cons_self) hty s1 _ hs1' G (by omega)
    obtain ⟨s3, h3, hs3, hi3⟩ := tu_loop l (acc ++ e.vals s1.idx) s2 G (fun e' h => hw e' (List.mem_cons_of_mem _ h)) hty hs2 (by omega)
    refine ⟨s3, ?_, hs3, by simp only [extsNtoks]; omega⟩
    have e1 : s1.idx = s.idx := hi1
    have e2 : s2.idx = s.idx + e.ntoks := by omega
    rw [e2] at h3
    rw [e1] at h2 h3
    show pTranslationUnitLoop (run G) acc s = _
    simp [pTranslationUnitLoop, StmtSkel.bnd, h1, h2, h3, StmtSkel.pur, extsVals]

/-- **Whole translation units.** For every translation unit of the fragment - any number of
file-scope declarations and function definitions, bodies with declarations and statements, all of
any size - `CParser.parse` (its model `parseCore`, on the token stream of the program) returns the
`FileAST` whose external declarations are the ones the grammar prescribes, in source order. -/
theorem parse_translation_unit (l : List Ext) (hw : ∀ e ∈ l, WFExt (fun _ => false) e) (F : Nat) (hF : extsFuel l ≤ F) :
    (parseCore F ((extsFlat l).map (fun t => SEv.tok t.1 t.2) ++ [.eof])).1 =
      .ast (mk .FileAST none [.list (extsVals 0 l)]) := by
  have hs := ParenExpr.seesT_init (extsFlat l)
  cases l with
  | nil =>
    obtain ⟨s1, h1, hs1, _, _, _⟩ := peek_end _ hs
    obtain ⟨s2, h2, hs2, _, _, _⟩ := peek_end _ hs1
    simp only [extsFlat, List.map_nil, List.nil_append] at h1
    simp [parseCore, extsFlat, StmtSkel.bnd, h1, h2, StmtSkel.pur, extsVals]
  | cons e r =>
    obtain ⟨t, r', hfl⟩ := ext_head e (hw e List.mem_cons_self)
    have hs' : SeesT ⟨fun _ => false, extsFlat (e :: r)⟩ (initState ((extsFlat (e :: r)).map (fun t => SEv.tok t.1 t.2) ++ [.eof]))
        ((t.1, t.2) :: (r' ++ extsFlat r)) := by simpa [extsFlat, hfl] using hs
    obtain ⟨s1, h1, hs1, _, hi1, _⟩ := peek_spec _ t.1 t.2 _ hs'
    have hs1' : SeesT ⟨fun _ => false, extsFlat (e :: r)⟩ s1 (extsFlat (e :: r)) := by simpa [extsFlat, hfl] using hs1
    obtain ⟨s2, h2, hs2, hi2⟩ := tu_loop (e :: r) [] s1 F hw (fun _ => rfl) hs1' hF
    obtain ⟨s3, h3, hs3, _, _, _⟩ := peek_end _ hs2
    have e1 : s1.idx = 0 := hi1
    rw [e1] at h2
    simp only [List.nil_append] at h2
    simp [parseCore, StmtSkel.bnd, h1, h2, h3, StmtSkel.pur]

end PycModel.TransUnit
