import PycModel.Proofs.DeclParse
import PycModel.Proofs.StmtSkel
/-!
# Function bodies with declarations, function definitions, translation units

Composition of `DeclParse.parse_declaration` (declarations) and `StmtSkel.parse_stmt` (statements)
into whole translation units of the fragment

    translation-unit  := { external-declaration }
    external-decl     := declaration | specifiers declarator compound-body
    compound-body     := '{' { declaration | statement } '}'

(declarations as in `DeclParse`, statements as in `StmtSkel`; declarations at the top level of a
function body).  The end result is `parse_translation_unit`: `parseCore`, the model of
`CParser.parse` on the stripped token stream, returns the `FileAST` the grammar prescribes.
-/
namespace PycModel.TransUnit
open PycModel PycModel.View PycModel.OperandId PycModel.FullExpr PycModel.TypeModify PycModel.DeclSkel PycModel.BuildDecl
  PycModel.DeclParse PycModel.StmtSkel

variable {env : Env}

/-! ## block items -/

inductive Item where
  | decl (dc : Dcl)
  | stmt (st : S)

namespace Item
def flat : Item → List Tk
  | .decl dc => dc.flat
  | .stmt st => st.flat
def ntoks : Item → Nat
  | .decl dc => dc.ntoks
  | .stmt st => st.ntoks
def vals (n : Nat) : Item → List Val
  | .decl dc => dc.vals n
  | .stmt st => [st.val n]
def fuel : Item → Nat
  | .decl dc => dc.fuel + 1
  | .stmt st => st.fuel
def names : Item → List String
  | .decl dc => dc.names
  | .stmt _ => []
end Item

def WFItem : Item → Prop
  | .decl dc => WFDcl dc
  | .stmt st => WFS st

def itemsFlat : List Item → List Tk
  | [] => []
  | it :: r => it.flat ++ itemsFlat r
def itemsNtoks : List Item → Nat
  | [] => 0
  | it :: r => it.ntoks + itemsNtoks r
def itemsVals : Nat → List Item → List Val
  | _, [] => []
  | n, it :: r => it.vals n ++ itemsVals (n + it.ntoks) r
def itemsFuel : List Item → Nat
  | [] => 1
  | it :: r => it.fuel + itemsFuel r + 2
def itemsNames : List Item → List String
  | [] => []
  | it :: r => it.names ++ itemsNames r

theorem Dcl.flat_length (dc : Dcl) : dc.flat.length = dc.ntoks := by
  have h1 := dc.first.flat_length
  have h2 : ∀ l : List IDc, (restFlat l).length = restNtoks l := by
    intro l
    induction l with
    | nil => rfl
    | cons it r ih => simp [restFlat, restNtoks, ih, it.flat_length]; omega
  simp [Dcl.flat, Dcl.body, Dcl.ntoks, h1, h2]; omega

/-- the first token of a declaration is a specifier -/
theorem Dcl.head {dc : Dcl} (hwf : WFDcl dc) : ∃ t r, dc.flat = t :: r ∧ t.1 ∈ declStart ∧ t.1 ≠ "ELSE" ∧ t.1 ≠ "RBRACE" := by
  cases hsp : dc.specs with
  | nil => exact absurd hsp (sawAfter_ne_nil hwf.sawType)
  | cons t r =>
    have h := hwf.specToks
    rw [hsp] at h
    obtain ⟨hk, _⟩ := h
    refine ⟨t, r ++ (dc.first.flat ++ restFlat dc.more) ++ [("SEMI", ";")], by simp [Dcl.flat, Dcl.body, hsp], ?_⟩
    rcases hk with h | h | h | h | h
    · revert h; generalize t.1 = k; revert k; decide
    · revert h; generalize t.1 = k; revert k; decide
    · revert h; generalize t.1 = k; revert k; decide
    · revert h; generalize t.1 = k; revert k; decide
    · rw [h.1]; decide

theorem items_head_not_else : ∀ (l : List Item), (∀ it ∈ l, WFItem it) → ∀ (rest : List Tk) k v r,
    itemsFlat l ++ ("RBRACE", "}") :: rest = (k, v) :: r → k ≠ "ELSE"
  | [], _, rest, k, v, r, h => by
    simp only [itemsFlat, List.nil_append, List.cons.injEq, Prod.mk.injEq] at h; rw [← h.1.1]; decide
  | .decl dc :: l, hw, rest, k, v, r, h => by
    obtain ⟨t, r', hfl, _, hne, _⟩ := Dcl.head (hw _ List.mem_cons_self)
    simp only [itemsFlat, Item.flat, hfl, List.cons_append, List.cons.injEq] at h
    rw [h.1] at hne; exact hne
  | .stmt st :: l, hw, rest, k, v, r, h => by
    obtain ⟨t, r', hfl, hth⟩ := S.head st (hw _ List.mem_cons_self)
    simp only [itemsFlat, Item.flat, hfl, List.cons_append, List.cons.injEq] at h
    have := (stmtHeads_facts t.1 hth).2.2.1
    rw [h.1] at this; exact this

/-- **`_parse_block_item_list`** with declarations and statements in any order -/
theorem items_loop : ∀ (l : List Item) (acc : List Val) (s : PState) (rest : List Tk) (F : Nat),
    (∀ it ∈ l, WFItem it) → (∀ x ∈ itemsNames l, env.ty x = false) →
    SeesT env s (itemsFlat l ++ ("RBRACE", "}") :: rest) → itemsFuel l ≤ F →
    ∃ s', run F (.blockItemListLoop acc) s = .ok (acc ++ itemsVals s.idx l) s' ∧
      SeesT env s' (("RBRACE", "}") :: rest) ∧ s'.idx = s.idx + itemsNtoks l
  | [], acc, s, rest, F, _, _, hs, hF => by
    obtain ⟨G, rfl⟩ : ∃ G, F = G + 1 := ⟨F - 1, by simp only [itemsFuel] at hF; omega⟩
    have hs0 : SeesT env s (("RBRACE", "}") :: rest) := by simpa [itemsFlat] using hs
    obtain ⟨s1, h1, hs1, hi1, _⟩ := peekType_spec s _ hs0
    refine ⟨s1, ?_, hs1, by simp only [itemsNtoks]; omega⟩
    show pBlockItemListLoop (run G) acc s = _
    simp [pBlockItemListLoop, StmtSkel.bnd, h1, StmtSkel.pur, itemsVals]
  | .decl dc :: l, acc, s, rest, F, hw, hty, hs, hF => by
    obtain ⟨G, rfl⟩ : ∃ G, F = G + 1 := ⟨F - 1, by simp only [itemsFuel] at hF; omega⟩
    simp only [itemsFuel, Item.fuel] at hF
    have hwd : WFDcl dc := hw _ List.mem_cons_self
    obtain ⟨t, r', hfl, hds, _, hnr⟩ := Dcl.head hwd
    have hs0 : SeesT env s (dc.flat ++ (itemsFlat l ++ ("RBRACE", "}") :: rest)) := by
      simpa [itemsFlat, Item.flat, List.append_assoc] using hs
    have hs0' : SeesT env s ((t.1, t.2) :: (r' ++ (itemsFlat l ++ ("RBRACE", "}") :: rest))) := by simpa [hfl] using hs0
    obtain ⟨s1, h1, hs1, hi1, _⟩ := peekType_spec s _ hs0'
    obtain ⟨s2, h2, hs2, hi2, _⟩ := peekType_spec s1 _ hs1
    have hs2' : SeesT env s2 (dc.flat ++ (itemsFlat l ++ ("RBRACE", "}") :: rest)) := by simpa [hfl] using hs2
    obtain ⟨s3, h3, hs3, hi3⟩ := parse_declaration dc hwd
      (fun x hx => hty x (by simp only [itemsNames, Item.names, List.mem_append]; exact .inl hx)) s2 _ hs2' G (by omega)
    obtain ⟨s4, h4, hs4, hi4⟩ := items_loop l (acc ++ dc.vals s2.idx) s3 rest G
      (fun it h => hw it (List.mem_cons_of_mem _ h))
      (fun x hx => hty x (by simp only [itemsNames, List.mem_append]; exact .inr hx)) hs3 (by omega)
    refine ⟨s4, ?_, hs4, by simp only [itemsNtoks, Item.ntoks]; omega⟩
    have e2 : s2.idx = s.idx := by omega
    have e3 : s3.idx = s.idx + dc.ntoks := by omega
    rw [e3] at h4
    rw [e2] at h3 h4
    have hin : inSet (some t.1) declStart = true := mem_inSet hds
    show pBlockItemListLoop (run G) acc s = _
    simp [pBlockItemListLoop, StmtSkel.bnd, h1, h2, startsDeclaration, StmtSkel.pur, hin, hnr, h3, h4, itemsVals, Item.vals,
      Item.ntoks]
  | .stmt st :: l, acc, s, rest, F, hw, hty, hs, hF => by
    obtain ⟨G, rfl⟩ : ∃ G, F = G + 1 := ⟨F - 1, by simp only [itemsFuel] at hF; omega⟩
    simp only [itemsFuel, Item.fuel] at hF
    have hws : WFS st := hw _ List.mem_cons_self
    obtain ⟨t, r', hfl, hth⟩ := S.head st hws
    obtain ⟨_, _, _, hnr, hnd, _⟩ := stmtHeads_facts t.1 hth
    have hs0 : SeesT env s (st.flat ++ (itemsFlat l ++ ("RBRACE", "}") :: rest)) := by
      simpa [itemsFlat, Item.flat, List.append_assoc] using hs
    have hs0' : SeesT env s ((t.1, t.2) :: (r' ++ (itemsFlat l ++ ("RBRACE", "}") :: rest))) := by simpa [hfl] using hs0
    obtain ⟨s1, h1, hs1, hi1, _⟩ := peekType_spec s _ hs0'
    obtain ⟨s2, h2, hs2, hi2, _⟩ := peekType_spec s1 _ hs1
    have hs2' : SeesT env s2 (st.flat ++ (itemsFlat l ++ ("RBRACE", "}") :: rest)) := by simpa [hfl] using hs2
    obtain ⟨s3, h3, hs3, hi3⟩ := parse_stmt st hws s2 _ hs2'
      (fun _ => items_head_not_else l (fun it h => hw it (List.mem_cons_of_mem _ h)) rest) G (by omega)
    obtain ⟨s4, h4, hs4, hi4⟩ := items_loop l (acc ++ [st.val s2.idx]) s3 rest G
      (fun it h => hw it (List.mem_cons_of_mem _ h))
      (fun x hx => hty x (by simp only [itemsNames, List.mem_append]; exact .inr hx)) hs3 (by omega)
    refine ⟨s4, ?_, hs4, by simp only [itemsNtoks, Item.ntoks]; omega⟩
    obtain ⟨c, co, fs, hv⟩ := S.val_node st s2.idx
    have e2 : s2.idx = s.idx := by omega
    have e3 : s3.idx = s.idx + st.ntoks := by omega
    rw [e3] at h4
    have hv' : st.val s.idx = .node c co fs := by rw [← e2]; exact hv
    rw [hv] at h3 h4
    show pBlockItemListLoop (run G) acc s = _
    simp [pBlockItemListLoop, StmtSkel.bnd, h1, h2, startsDeclaration, StmtSkel.pur, hnd, hnr, h3, h4, itemsVals, Item.vals,
      Item.ntoks, hv']

/-! ## function bodies -/

def bodyFlat (l : List Item) : List Tk := ("LBRACE", "{") :: (itemsFlat l ++ [("RBRACE", "}")])

/-- the `Compound` of a function body whose `{` is at position `n` -/
def bodyVal (n : Nat) (l : List Item) : Val :=
  mk .Compound (tc n) [match l with | [] => .none | _ => .list (itemsVals (n + 1) l)]

theorem item_head : ∀ (it : Item), WFItem it → ∃ t r, it.flat = t :: r ∧ t.1 ≠ "RBRACE"
  | .decl dc, hw => by
    obtain ⟨t, r, h, _, _, hn⟩ := Dcl.head hw
    exact ⟨t, r, h, hn⟩
  | .stmt st, hw => by
    obtain ⟨t, r, h, hth⟩ := S.head st hw
    exact ⟨t, r, h, (stmtHeads_facts t.1 hth).2.2.2.1⟩

/-- **`_parse_compound_statement`** on a body with declarations -/
theorem compound_ok (l : List Item) (hw : ∀ it ∈ l, WFItem it) (hty : ∀ x ∈ itemsNames l, env.ty x = false)
    (s : PState) (rest : List Tk) (hs : SeesT env s (bodyFlat l ++ rest)) (F : Nat) (hF : itemsFuel l + 2 ≤ F) :
    ∃ s', run F .compoundStatement s = .ok (bodyVal s.idx l) s' ∧ SeesT env s' rest ∧
      s'.idx = s.idx + itemsNtoks l + 2 := by
  obtain ⟨G, rfl⟩ : ∃ G, F = G + 1 := ⟨F - 1, by omega⟩
  have hs0 : SeesT env s (("LBRACE", "{") :: (itemsFlat l ++ ("RBRACE", "}") :: rest)) := by
    simpa [bodyFlat, List.append_assoc] using hs
  obtain ⟨s1, h1, hs1, hi1⟩ := expect_same s "LBRACE" "{" _ hs0
  cases l with
  | nil =>
    have hs1' : SeesT env s1 (("RBRACE", "}") :: rest) := by simpa [itemsFlat] using hs1
    obtain ⟨s2, h2, hs2, hi2, _⟩ := accept_same s1 "RBRACE" "}" rest hs1'
    refine ⟨s2, ?_, hs2, by simp only [itemsNtoks]; omega⟩
    show pCompoundStatement (run G) s = _
    simp [pCompoundStatement, StmtSkel.bnd, h1, h2, StmtSkel.pur, tokCoord, tc, bodyVal]
  | cons it r =>
    obtain ⟨t, r', hfl, hnr⟩ := item_head it (hw it List.mem_cons_self)
    obtain ⟨s2, h2, hs2, hi2⟩ := accept_other s1 _ "RBRACE" hs1 (by
      intro k v r'' h
      simp only [itemsFlat, hfl, List.cons_append, List.append_assoc, List.cons.injEq] at h
      rw [h.1] at hnr; exact hnr)
    obtain ⟨s3, h3, hs3, hi3⟩ := items_loop (it :: r) [] s2 rest G hw hty hs2 (by omega)
    obtain ⟨s4, h4, hs4, hi4⟩ := expect_same s3 "RBRACE" "}" rest hs3
    refine ⟨s4, ?_, hs4, by omega⟩
    have e2 : s2.idx = s.idx + 1 := by omega
    rw [e2] at h3
    show pCompoundStatement (run G) s = _
    simp [pCompoundStatement, StmtSkel.bnd, h1, h2, h3, h4, StmtSkel.pur, tokCoord, tc, bodyVal]

end PycModel.TransUnit
