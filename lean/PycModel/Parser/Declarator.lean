import PycModel.Parser.Decl
/-! Declarator productions (`c_parser.py:523-589, 1218-1540`). -/
namespace PycModel

/-- `_parse_any_declarator` -/
def pAnyDeclarator (self : Self) (allowAbstract typeidParenAsAbstract : Bool) : P (Val × Bool) := do
  -- `_peek_declarator_name_info`
  let m ← mark
  let (nameType, sawParen) ← self .scanDeclaratorNameInfo
  reset m
  if nameType.isNone || (typeidParenAsAbstract && nameType == some "TYPEID" && sawParen) then
    if !allowAbstract then
      parseError "Invalid declarator" (← hereLoc)
    else
      let d ← self .abstractDeclaratorOpt
      pure (d, false)
  else if nameType == some "TYPEID" then
    if typeidParenAsAbstract then
      pure (← self (.declaratorKind .typeid false), true)
    else pure (← self (.declaratorKind .typeid true), true)
  else pure (← self (.declaratorKind .id true), true)

/-- `while self._accept("TIMES")` of `_scan_declarator_name_info` -/
def pScanStars (self : Self) : P Unit := do
  if (← accept "TIMES").isSome then
    self .scanQuals
    self .scanStars
  else pure ()

def pScanQuals (self : Self) : P Unit := do
  if inSet (← peekType) typeQualifier then
    let _ ← advance
    self .scanQuals
  else pure ()

/-- the bracket-skipping `while True` of `_scan_declarator_name_info`; `false` = input ended -/
def pScanParenSkip (self : Self) (depth : Nat) : P Bool := do
  match ← peek with
  | none => pure false
  | some tok =>
    if tok.kind == "LPAREN" then
      let _ ← advance
      self (.scanParenSkip (depth + 1))
    else if tok.kind == "RPAREN" then
      let _ ← advance
      if depth - 1 == 0 then pure true else self (.scanParenSkip (depth - 1))
    else
      let _ ← advance
      self (.scanParenSkip depth)

/-- `_scan_declarator_name_info` -/
def pScanDeclaratorNameInfo (self : Self) : P (Option String × Bool) := do
  self .scanStars
  match ← peek with
  | none => pure (none, false)
  | some tok =>
    if tok.kind == "ID" || tok.kind == "TYPEID" then
      let _ ← advance
      pure (some tok.kind, false)
    else if tok.kind == "LPAREN" then
      let _ ← advance
      let (tokType, _) ← self .scanDeclaratorNameInfo
      if ← self (.scanParenSkip 1) then pure (tokType, true) else pure (none, true)
    else pure (none, false)

/-- `_parse_declarator_kind` -/
def pDeclaratorKind (self : Self) (kind : DKind) (allowParen : Bool) : P Val := do
  if (← peekType) == some "TIMES" then
    let ptr ← self .pointer
    let direct ← self (.directDeclarator kind allowParen)
    if ptr.isNone then pure direct else typeModifyDecl direct ptr
  else self (.directDeclarator kind allowParen)

/-- `_parse_direct_declarator` -/
def pDirectDeclarator (self : Self) (kind : DKind) (allowParen : Bool) : P Val := do
  let viaParen ← if allowParen then accept "LPAREN" else pure none
  let decl ← (do
    if viaParen.isSome then
      let d ← self (.declaratorKind kind true)
      let _ ← expect "RPAREN"
      pure d
    else
      let nameTok ← match kind with
        | .id => expect "ID"
        | .typeid => expect "TYPEID"
      pure (mk .TypeDecl (some (← tokCoord nameTok)) [.str nameTok.val, .none, .none, .none]))
  self (.declSuffixesLoop decl)

/-- `_parse_decl_suffixes` -/
def pDeclSuffixesLoop (self : Self) (decl : Val) : P Val := do
  if (← peekType) == some "LBRACKET" then
    let co ← valCoord decl "base_decl.coord"
    let arr ← self (.arrayDeclCommon .none co)
    let d ← typeModifyDecl decl arr
    self (.declSuffixesLoop d)
  else if (← peekType) == some "LPAREN" then
    let f ← self (.functionDecl decl)
    let d ← typeModifyDecl decl f
    self (.declSuffixesLoop d)
  else pure decl

/-- `_parse_array_decl_common`; `coord = none` means "use the `[` token" -/
def pArrayDeclCommon (self : Self) (baseType : Val) (coord : Option Coord) : P Val := do
  let lb ← expect "LBRACKET"
  let coord ← match coord with
    | some c => pure (some c)
    | none => do pure (some (← tokCoord lb))
  let make (dim : Val) (dq : List Val) : Val := mk .ArrayDecl coord [baseType, dim, .list dq]
  if (← accept "STATIC").isSome then
    let qs ← self (.typeQualifierListLoop [])
    let dim ← self .assignmentExpression
    let _ ← expect "RBRACKET"
    pure (make dim (.str "static" :: qs))
  else if inSet (← peekType) typeQualifier then
    let qs ← self (.typeQualifierListLoop [])
    if (← accept "STATIC").isSome then
      let dim ← self .assignmentExpression
      let _ ← expect "RBRACKET"
      pure (make dim (qs ++ [.str "static"]))
    else
      if ← andM (peekIs "TIMES") (peek2Is "RBRACKET") then
        let tt ← advance
        let _ ← expect "RBRACKET"
        pure (make (mk .ID (some (← tokCoord tt)) [.str tt.val]) qs)
      else
        let dim ← if ← startsExpression then self .assignmentExpression else pure Val.none
        let _ ← expect "RBRACKET"
        pure (make dim qs)
  else
    if ← andM (peekIs "TIMES") (peek2Is "RBRACKET") then
      let tt ← advance
      let _ ← expect "RBRACKET"
      pure (make (mk .ID (some (← tokCoord tt)) [.str tt.val]) [])
    else
      let dim ← if ← startsExpression then self .assignmentExpression else pure Val.none
      let _ ← expect "RBRACKET"
      pure (make dim [])

/-- registration of parameter names when a `{` follows (`c_parser.py:1364-1371`) -/
def registerParams : List Val → P Unit
  | [] => pure ()
  | p :: rest => do
    if p.isCls .EllipsisParam then pure () else
    match p.getAttr "name" with          -- `getattr(param, "name", None)`
    | some (.str n) =>
      if !n.isEmpty then addIdentifier n (← valCoord p "param.coord")
      registerParams rest
    | _ => registerParams rest

/-- `_parse_function_decl` -/
def pFunctionDecl (self : Self) (base : Val) : P Val := do
  let _ ← expect "LPAREN"
  let args ← (do
    if (← accept "RPAREN").isSome then pure Val.none else
    let a ← if ← startsDeclaration then self .parameterTypeList
      else do   -- `_parse_identifier_list_opt`
        if (← peekType) == some "RPAREN" then pure Val.none else
        let first ← pIdentifier
        let l ← self (.identifierListLoop [first])
        pure (mk .ParamList (← coordOf first) [.list l])
    let _ ← expect "RPAREN"
    pure a)
  let bco ← valCoord base "base_decl.coord"
  let func := mk .FuncDecl bco [args, .none]
  if (← peekType) == some "LBRACE" then
    if !args.isNone then
      match ← attrOrCrash (args.getAttr "params") "func.args.params" with
      | .list ps => registerParams ps
      | _ => crash .type "func.args.params"
  pure func

/-- `_parse_identifier_list` tail -/
def pIdentifierListLoop (self : Self) (acc : List Val) : P (List Val) := do
  match ← accept "COMMA" with
  | none => pure acc
  | some _ =>
    let i ← pIdentifier
    self (.identifierListLoop (acc ++ [i]))

/-- `_parse_pointer`: collect the stars -/
def pPointerLoop (self : Self) (stars : List (List Val × Coord)) : P (List (List Val × Coord)) := do
  match ← accept "TIMES" with
  | none => pure stars
  | some tt =>
    let qs ← self (.typeQualifierListLoop [])
    let co ← tokCoord tt
    self (.pointerLoop (stars ++ [(qs, co)]))

def pPointer (self : Self) : P Val := do
  let stars ← self (.pointerLoop [])
  pure (stars.foldl (fun ptr (qc : List Val × Coord) => mk .PtrDecl (some qc.2) [.list qc.1, ptr]) Val.none)

/-- `_parse_parameter_type_list` -/
def pParameterTypeList (self : Self) : P Val := do
  let first ← self .parameterDeclaration
  let fco ← coordOf first
  let ps ← self (.parameterListLoop [first])
  if ← andM (peekIs "COMMA") (peek2Is "ELLIPSIS") then
    let _ ← advance
    let ell ← advance
    pure (mk .ParamList fco [.list (ps ++ [mk .EllipsisParam (some (← tokCoord ell)) []])])
  else pure (mk .ParamList fco [.list ps])

def pParameterListLoop (self : Self) (acc : List Val) : P (List Val) := do
  if ← andM (peekIs "COMMA") (do pure (!(← peek2Is "ELLIPSIS"))) then
    let _ ← advance
    let p ← self .parameterDeclaration
    self (.parameterListLoop (acc ++ [p]))
  else pure acc

/-- `_build_parameter_declaration` -/
def buildParameterDeclaration (spec : DeclSpec) (decl : Val) (specCoord : Option Coord) : P Val := do
  let useDecl : P Bool := do
    if spec.type.length > 1 && (spec.type.getLast!).isCls .IdentifierType then
      let names ← lastTypeNames spec
      if names.length == 1 then isTypeInScope (strOf names.head!) else pure false
    else pure false
  if ← useDecl then
    match ← buildDeclarations spec [{ decl := decl }] false with
    | d :: _ => pure d
    | [] => crash .index "[0]"
  else
    let ty := if decl.truthy then decl else emptyTypeDecl
    let tn := mk .Typename specCoord [.str "", .list spec.qual, .none, ty]
    fixDeclNameType tn spec.type

/-- `_parse_parameter_declaration` -/
def pParameterDeclaration (self : Self) : P Val := do
  let (spec, _, specCoord) ← pDeclSpecs self true
  let spec := if spec.type.isEmpty then
      { spec with type := [mk .IdentifierType specCoord [Val.strs ["int"]]] } else spec
  if ← startsDeclarator false then
    let (decl, isNamed) ← self (.anyDeclarator true true)
    if isNamed then
      match ← buildDeclarations spec [{ decl := decl }] false with
      | d :: _ => pure d
      | [] => crash .index "[0]"
    else buildParameterDeclaration spec decl specCoord
  else
    let decl ← self .abstractDeclaratorOpt
    buildParameterDeclaration spec decl specCoord

/-- `_parse_type_name` -/
def pTypeName (self : Self) : P Val := do
  let spec ← pSpecifierQualifierList self
  let decl ← self .abstractDeclaratorOpt
  let coord ← (do
    if !decl.isNone then valCoord decl "decl.coord"
    else match spec.type with
      | t :: _ => valCoord t "spec['type'][0].coord"
      | [] => pure none)
  let ty := if decl.truthy then decl else emptyTypeDecl
  let tn := mk .Typename coord [.str "", .list spec.qual, .none, ty]
  fixDeclNameType tn spec.type

/-- `_parse_abstract_declarator_opt` -/
def pAbstractDeclaratorOpt (self : Self) : P Val := do
  if (← peekType) == some "TIMES" then
    let ptr ← self .pointer
    let decl ← if ← startsDirectAbstractDeclarator then self .directAbstractDeclarator
      else pure emptyTypeDecl
    if ptr.isNone then crash .assertion "ptr is not None" else typeModifyDecl decl ptr
  else if ← startsDirectAbstractDeclarator then self .directAbstractDeclarator
  else pure Val.none

/-- `_parse_direct_abstract_declarator` -/
def pDirectAbstractDeclarator (self : Self) : P Val := do
  let decl ← (do
    match ← accept "LPAREN" with
    | some lp =>
      if ← orM startsDeclaration (peekIs "RPAREN") then
        let params ← if (← peekType) == some "RPAREN" then pure Val.none else self .parameterTypeList
        let _ ← expect "RPAREN"
        pure (mk .FuncDecl (some (← tokCoord lp)) [params, emptyTypeDecl])
      else
        let d ← self .abstractDeclaratorOpt
        let _ ← expect "RPAREN"
        if d.isNone then crash .assertion "decl is not None" else pure d
    | none =>
      if (← peekType) == some "LBRACKET" then self (.arrayDeclCommon emptyTypeDecl none)
      else parseError "Invalid abstract declarator" (← hereLoc))
  self (.declSuffixesLoop decl)

end PycModel
