import PycModel.Parser.NT
/-! Expression, initializer and terminal productions (`c_parser.py:1742-2116`), line by line. -/
namespace PycModel

def coordOf (v : Val) : P (Option Coord) := valCoord v "expr.coord"

def mkID (t : PTok) : P Val := do
  let c ← tokCoord t
  pure (mk .ID (some c) [.str t.val])

/-- `_try_parse_paren_type_name` -/
def pTryParenTypeName (self : Self) : P (Option (Val × Nat × PTok)) := do
  let m ← mark
  match ← accept "LPAREN" with
  | none => pure none
  | some lp =>
    if !(← startsDeclaration) then
      reset m; pure none
    else
      let typ ← self .typeName
      match ← accept "RPAREN" with
      | none => reset m; pure none
      | some _ => pure (some (typ, m, lp))

/-- `_parse_expression` -/
def pExpression (self : Self) : P Val := do
  let expr ← self .assignmentExpression
  match ← accept "COMMA" with
  | none => pure expr
  | some _ =>
    let e2 ← self .assignmentExpression
    let exprs ← self (.exprListLoop [expr, e2])
    pure (mk .ExprList (← coordOf expr) [.list exprs])

def pExprListLoop (self : Self) (acc : List Val) : P (List Val) := do
  match ← accept "COMMA" with
  | none => pure acc
  | some _ =>
    let e ← self .assignmentExpression
    self (.exprListLoop (acc ++ [e]))

/-- `_parse_assignment_expression` -/
def pAssignmentExpression (self : Self) : P Val := do
  if ← andM (peekIs "LPAREN") (peek2Is "LBRACE") then
    let _ ← advance
    let comp ← self .compoundStatement
    let _ ← expect "RPAREN"
    pure comp
  else
    let expr ← self .conditionalExpression
    if inSet (← peekType) assignmentOps then
      let op := (← advance).val
      let rhs ← self .assignmentExpression
      pure (mk .Assignment (← coordOf expr) [.str op, expr, rhs])
    else pure expr

/-- `_parse_conditional_expression` -/
def pConditionalExpression (self : Self) : P Val := do
  let expr ← self (.binaryExpression 0 none)
  match ← accept "CONDOP" with
  | none => pure expr
  | some _ =>
    let iftrue ← self .expression
    let _ ← expect "COLON"
    let iffalse ← self .conditionalExpression
    pure (mk .TernaryOp (← coordOf expr) [expr, iftrue, iffalse])

/-- `_parse_binary_expression`: the outer `while True` (re-entered through `self` with `lhs` set) -/
def pBinaryExpression (self : Self) (minPrec : Nat) (lhs : Option Val) : P Val := do
  let lhs ← match lhs with
    | some l => pure l
    | none => self .castExpression
  match ← peek with
  | none => pure lhs
  | some tok =>
    match binPrec tok.kind with
    | none => pure lhs
    | some prec =>
      if prec < minPrec then pure lhs else
      let op := tok.val
      let _ ← advance
      let rhs ← self .castExpression
      let rhs ← self (.binaryInner prec rhs)
      let lhs' := mk .BinaryOp (← coordOf lhs) [.str op, lhs, rhs]
      self (.binaryExpression minPrec (some lhs'))

/-- the inner `while True` of `_parse_binary_expression` -/
def pBinaryInner (self : Self) (prec : Nat) (rhs : Val) : P Val := do
  match ← peek with
  | none => pure rhs
  | some nt =>
    match binPrec nt.kind with
    | none => pure rhs
    | some np =>
      if np > prec then
        let rhs' ← self (.binaryExpression np (some rhs))
        self (.binaryInner prec rhs')
      else pure rhs

/-- `_parse_cast_expression` -/
def pCastExpression (self : Self) : P Val := do
  match ← self .tryParenTypeName with
  | some (typ, m, lp) =>
    if (← peekType) == some "LBRACE" then
      let _ := m
      self (.postfixExpression (some typ))
    else
      let expr ← self .castExpression
      pure (mk .Cast (some (← tokCoord lp)) [typ, expr])
  | none => self .unaryExpression

/-- `_parse_unary_expression` -/
def pUnaryExpression (self : Self) : P Val := do
  let k ← peekType
  if inSet k ["PLUSPLUS", "MINUSMINUS"] then
    let tok ← advance
    let expr ← self .unaryExpression
    pure (mk .UnaryOp (← coordOf expr) [.str tok.val, expr])
  else if inSet k ["AND", "TIMES", "PLUS", "MINUS", "NOT", "LNOT"] then
    let tok ← advance
    let expr ← self .castExpression
    pure (mk .UnaryOp (← coordOf expr) [.str tok.val, expr])
  else if k == some "SIZEOF" then
    let tok ← advance
    match ← self .tryParenTypeName with
    | some (typ, _, _) =>
      if (← peekType) == some "LBRACE" then
        let expr ← self (.postfixExpression (some typ))
        pure (mk .UnaryOp (some (← tokCoord tok)) [.str tok.val, expr])
      else pure (mk .UnaryOp (some (← tokCoord tok)) [.str tok.val, typ])
    | none =>
      let expr ← self .unaryExpression
      pure (mk .UnaryOp (some (← tokCoord tok)) [.str tok.val, expr])
  else if k == some "_ALIGNOF" then
    let tok ← advance
    let _ ← expect "LPAREN"
    let typ ← self .typeName
    let _ ← expect "RPAREN"
    pure (mk .UnaryOp (some (← tokCoord tok)) [.str tok.val, typ])
  else self (.postfixExpression none)

/-- `_parse_postfix_expression` -/
def pPostfixExpression (self : Self) (compoundType : Option Val) : P Val := do
  let typ : Option Val ← (do
    match compoundType with
    | some t => pure (some t)
    | none =>
      match ← self .tryParenTypeName with
      | some (t, m, _) =>
        if (← peekType) == some "LBRACE" then pure (some t)
        else do reset m; pure none
      | none => pure none)
  match typ with
  | some t =>
    let _ ← expect "LBRACE"
    let init ← self .initializerList
    let _ ← accept "COMMA"
    let _ ← expect "RBRACE"
    self (.postfixLoop (mk .CompoundLiteral (← valCoord t "typ.coord") [t, init]))
  | none =>
    let e ← self .primaryExpression
    self (.postfixLoop e)

def pPostfixLoop (self : Self) (expr : Val) : P Val := do
  if (← accept "LBRACKET").isSome then
    let sub ← self .expression
    let _ ← expect "RBRACKET"
    self (.postfixLoop (mk .ArrayRef (← coordOf expr) [expr, sub]))
  else if (← accept "LPAREN").isSome then
    let args ← if (← peekType) == some "RPAREN" then do
        let _ ← advance
        pure Val.none
      else do
        let first ← self .assignmentExpression
        let l ← self (.argListLoop [first])
        let a := mk .ExprList (← coordOf first) [.list l]
        let _ ← expect "RPAREN"
        pure a
    self (.postfixLoop (mk .FuncCall (← coordOf expr) [expr, args]))
  else if inSet (← peekType) ["PERIOD", "ARROW"] then
    let opTok ← advance
    let nameTok ← advance
    if !(nameTok.kind == "ID" || nameTok.kind == "TYPEID") then
      parseError "Invalid struct reference" (.coord (← tokCoord nameTok))
    else
      let field ← mkID nameTok
      self (.postfixLoop (mk .StructRef (← coordOf expr) [expr, .str opTok.val, field]))
  else if inSet (← peekType) ["PLUSPLUS", "MINUSMINUS"] then
    let tok ← advance
    self (.postfixLoop (mk .UnaryOp (← coordOf expr) [.str ("p" ++ tok.val), expr]))
  else pure expr

/-- `_parse_argument_expression_list` tail -/
def pArgListLoop (self : Self) (acc : List Val) : P (List Val) := do
  match ← accept "COMMA" with
  | none => pure acc
  | some _ =>
    let e ← self .assignmentExpression
    self (.argListLoop (acc ++ [e]))

def countSuffix (s : String) : Nat × Nat :=
  let last3 := (s.toList.reverse.take 3)
  (last3.countP (fun c => c == 'u' || c == 'U'), last3.countP (fun c => c == 'l' || c == 'L'))

def repeatStr (s : String) : Nat → String
  | 0 => ""
  | n+1 => s ++ repeatStr s n

/-- `_parse_constant` -/
def pConstant : P Val := do
  let tok ← advance
  if tok.kind == "INT_CONST_CHAR" then
    pure (mk .Constant (some (← tokCoord tok)) [.str "int", .str tok.val])
  else if intConst.contains tok.kind then
    let (u, l) := countSuffix tok.val
    if u > 1 then crash .value "Constant cannot have more than one u/U suffix."
    else if l > 2 then crash .value "Constant cannot have more than two l/L suffix."
    else
      let t := repeatStr "unsigned " u ++ repeatStr "long " l ++ "int"
      pure (mk .Constant (some (← tokCoord tok)) [.str t, .str tok.val])
  else if floatConst.contains tok.kind then
    let lastc := tok.val.toList.getLast?
    let t := if lastc == some 'f' || lastc == some 'F' then "float"
      else if lastc == some 'l' || lastc == some 'L' then "long double" else "double"
    pure (mk .Constant (some (← tokCoord tok)) [.str t, .str tok.val])
  else if charConst.contains tok.kind then
    pure (mk .Constant (some (← tokCoord tok)) [.str "char", .str tok.val])
  else parseError "Invalid constant" (.coord (← tokCoord tok))

def dropLastChar (s : String) : String := String.ofList s.toList.dropLast
def dropFirstChars (n : Nat) (s : String) : String := String.ofList (s.toList.drop n)

def unifiedStrLoop : Nat → String → P String
  | 0, _ => P.fail .fuel
  | fuel+1, v => do
    if (← peekType) == some "STRING_LITERAL" then
      let t2 ← advance
      unifiedStrLoop fuel (dropLastChar v ++ dropFirstChars 1 t2.val)
    else pure v

/-- `_parse_unified_string_literal` (the concatenation loop consumes one token per iteration;
its fuel is the number of tokens still unread) -/
def pUnifiedString : P Val := do
  let tok ← expect "STRING_LITERAL"
  let co ← tokCoord tok
  let s ← getState
  let v ← unifiedStrLoop (s.raw.length + s.buf.size + 2) tok.val
  pure (mk .Constant (some co) [.str "string", .str v])

def pyRstrip (s : String) : String :=
  String.ofList (s.toList.reverse.dropWhile Char.isWhitespace).reverse

/-- `s[s.index('"') + 1:]` (the token is a prefixed string literal, so the quote exists) -/
def dropThroughQuote (s : String) : String := String.ofList ((s.toList.dropWhile (· != '"')).drop 1)

def unifiedWStrLoop : Nat → String → P String
  | 0, _ => P.fail .fuel
  | fuel+1, v => do
    if inSet (← peekType) wstrLiteral then
      let t2 ← advance
      unifiedWStrLoop fuel (dropLastChar (pyRstrip v) ++ dropThroughQuote t2.val)
    else pure v

/-- `_parse_unified_wstring_literal` -/
def pUnifiedWString : P Val := do
  let tok ← advance
  if !wstrLiteral.contains tok.kind then
    parseError "Invalid string literal" (.coord (← tokCoord tok))
  else
    let co ← tokCoord tok
    let s ← getState
    let v ← unifiedWStrLoop (s.raw.length + s.buf.size + 2) tok.val
    pure (mk .Constant (some co) [.str "string", .str v])

def pIdentifier : P Val := do
  let t ← expect "ID"
  mkID t

def pIdentifierOrTypeid : P Val := do
  let t ← advance
  if !(t.kind == "ID" || t.kind == "TYPEID") then
    parseError "Expected identifier" (.coord (← tokCoord t))
  else mkID t

/-- `_parse_primary_expression` -/
def pPrimaryExpression (self : Self) : P Val := do
  let k ← peekType
  if k == some "ID" then pIdentifier
  else if inSet k intConst || inSet k floatConst || inSet k charConst then pConstant
  else if inSet k stringLiteral then self .unifiedString
  else if inSet k wstrLiteral then pUnifiedWString
  else if k == some "LPAREN" then
    let _ ← advance
    let e ← self .expression
    let _ ← expect "RPAREN"
    pure e
  else if k == some "OFFSETOF" then
    let offTok ← advance
    let _ ← expect "LPAREN"
    let typ ← self .typeName
    let _ ← expect "COMMA"
    let first ← pIdentifierOrTypeid
    let desig ← self (.offsetofLoop first)
    let _ ← expect "RPAREN"
    let co ← tokCoord offTok
    pure (mk .FuncCall (some co) [mk .ID (some co) [.str offTok.val],
      mk .ExprList (some co) [.list [typ, desig]]])
  else parseError "Invalid expression" (← hereLoc)

/-- loop of `_parse_offsetof_member_designator` -/
def pOffsetofLoop (self : Self) (node : Val) : P Val := do
  if (← accept "PERIOD").isSome then
    let field ← pIdentifierOrTypeid
    self (.offsetofLoop (mk .StructRef (← coordOf node) [node, .str ".", field]))
  else if (← accept "LBRACKET").isSome then
    let e ← self .expression
    let _ ← expect "RBRACKET"
    self (.offsetofLoop (mk .ArrayRef (← coordOf node) [node, e]))
  else pure node

/-! ## initializers -/

/-- `_parse_initializer` -/
def pInitializer (self : Self) : P Val := do
  match ← accept "LBRACE" with
  | some lb =>
    if (← accept "RBRACE").isSome then
      pure (mk .InitList (some (← tokCoord lb)) [.list []])
    else
      let il ← self .initializerList
      let _ ← accept "COMMA"
      let _ ← expect "RBRACE"
      pure il
  | none => self .assignmentExpression

/-- `_parse_initializer_list` -/
def pInitializerList (self : Self) : P Val := do
  let first ← self .initializerItem
  let items ← self (.initListLoop [first])
  pure (mk .InitList (← coordOf first) [.list items])

def pInitListLoop (self : Self) (acc : List Val) : P (List Val) := do
  match ← accept "COMMA" with
  | none => pure acc
  | some _ =>
    if (← peekType) == some "RBRACE" then pure acc
    else
      let it ← self .initializerItem
      self (.initListLoop (acc ++ [it]))

/-- `_parse_initializer_item` (+ `_parse_designation`) -/
def pInitializerItem (self : Self) : P Val := do
  if inSet (← peekType) ["LBRACKET", "PERIOD"] then
    let ds ← self (.designatorListLoop [])
    let _ ← expect "EQUALS"
    let init ← self .initializer
    pure (mk .NamedInitializer none [.list ds, init])
  else self .initializer

/-- `_parse_designator_list` / `_parse_designator` -/
def pDesignatorListLoop (self : Self) (acc : List Val) : P (List Val) := do
  if inSet (← peekType) ["LBRACKET", "PERIOD"] then
    if (← accept "LBRACKET").isSome then
      let e ← self .conditionalExpression
      let _ ← expect "RBRACKET"
      self (.designatorListLoop (acc ++ [e]))
    else if (← accept "PERIOD").isSome then
      let i ← pIdentifierOrTypeid
      self (.designatorListLoop (acc ++ [i]))
    else parseError "Invalid designator" (← hereLoc)
  else pure acc

end PycModel
