import PycModel.Parser.Core
/-!
# Nonterminals of the parser model and the result type of each

One constructor per `_parse_*` method of `CParser` (and one per Python `while` loop that calls
other productions).  Productions are written with *open recursion* against
`self : (nt : NT) → P nt.Res`; `Parser/Run.lean` ties the knot by recursion on fuel.
-/
namespace PycModel

/-- `_DeclSpec` -/
structure DeclSpec where
  qual : List Val := []
  storage : List Val := []
  type : List Val := []
  function : List Val := []
  alignment : List Val := []
  deriving Inhabited, Repr

/-- `_DeclInfo` -/
structure DeclInfo where
  decl : Val
  init : Val := .none
  bitsize : Val := .none
  deriving Inhabited, Repr

inductive DKind | id | typeid
  deriving DecidableEq, Repr, Inhabited

inductive NT where
  -- top level
  | translationUnitLoop (acc : List Val)
  | externalDeclaration
  -- declarations
  | declaration
  | declBody
  | declarationListLoop (acc : List Val)
  | declSpecsLoop (spec : Option DeclSpec) (sawType : Bool) (first : Option Coord)
  | sqlLoop (spec : Option DeclSpec) (sawType sawAlign : Bool) (first : Option Coord)
  | alignmentSpecifier
  | atomicSpecifier
  | initDeclaratorListLoop (acc : List DeclInfo) (idOnly : Bool)
  | initDeclarator (idOnly : Bool)
  -- struct / enum
  | structOrUnionSpecifier
  | structDeclListLoop (acc : List Val)
  | structDeclaration
  | structDeclaratorListLoop (acc : List DeclInfo)
  | structDeclarator
  | enumSpecifier
  | enumeratorListLoop (acc : List Val)
  | enumerator
  -- declarators
  | anyDeclarator (allowAbstract typeidParenAsAbstract : Bool)
  | scanDeclaratorNameInfo
  | scanStars
  | scanQuals
  | scanParenSkip (depth : Nat)
  | declaratorKind (kind : DKind) (allowParen : Bool)
  | directDeclarator (kind : DKind) (allowParen : Bool)
  | declSuffixesLoop (decl : Val)
  | arrayDeclCommon (baseType : Val) (coord : Option Coord)
  | functionDecl (base : Val)
  | pointer
  | pointerLoop (stars : List (List Val × Coord))
  | typeQualifierListLoop (acc : List Val)
  | parameterTypeList
  | parameterListLoop (params : List Val)
  | parameterDeclaration
  | identifierListLoop (params : List Val)
  | typeName
  | abstractDeclaratorOpt
  | directAbstractDeclarator
  | tryParenTypeName
  -- statements
  | statement
  | pragmacompOrStatement
  | blockItemListLoop (acc : List Val)
  | compoundStatement
  | labeledStatement
  | selectionStatement
  | iterationStatement
  | jumpStatement
  -- expressions
  | expression
  | exprListLoop (acc : List Val)
  | assignmentExpression
  | conditionalExpression
  | binaryExpression (minPrec : Nat) (lhs : Option Val)
  | binaryInner (prec : Nat) (rhs : Val)
  | castExpression
  | unaryExpression
  | postfixExpression (compoundType : Option Val)
  | postfixLoop (e : Val)
  | primaryExpression
  | offsetofLoop (node : Val)
  | argListLoop (acc : List Val)
  -- initializers
  | initializer
  | initializerList
  | initListLoop (acc : List Val)
  | initializerItem
  | designatorListLoop (acc : List Val)
  -- directives
  | pragmaDirective
  | pragmaListLoop (acc : List Val)
  | staticAssert
  | unifiedString

@[reducible] def NT.Res : NT → Type
  | .translationUnitLoop _ => List Val
  | .externalDeclaration => List Val
  | .declaration => List Val
  | .declBody => List Val
  | .declarationListLoop _ => List Val
  | .declSpecsLoop .. => Option DeclSpec × Bool × Option Coord
  | .sqlLoop .. => Option DeclSpec × Bool × Bool × Option Coord
  | .alignmentSpecifier => Val
  | .atomicSpecifier => Val
  | .initDeclaratorListLoop .. => List DeclInfo
  | .initDeclarator _ => DeclInfo
  | .structOrUnionSpecifier => Val
  | .structDeclListLoop _ => List Val
  | .structDeclaration => Option (List Val)
  | .structDeclaratorListLoop _ => List DeclInfo
  | .structDeclarator => DeclInfo
  | .enumSpecifier => Val
  | .enumeratorListLoop _ => List Val
  | .enumerator => Val
  | .anyDeclarator .. => Val × Bool
  | .scanDeclaratorNameInfo => Option String × Bool
  | .scanStars => Unit
  | .scanQuals => Unit
  | .scanParenSkip _ => Bool
  | .declaratorKind .. => Val
  | .directDeclarator .. => Val
  | .declSuffixesLoop _ => Val
  | .arrayDeclCommon .. => Val
  | .functionDecl _ => Val
  | .pointer => Val
  | .pointerLoop _ => List (List Val × Coord)
  | .typeQualifierListLoop _ => List Val
  | .parameterTypeList => Val
  | .parameterListLoop _ => List Val
  | .parameterDeclaration => Val
  | .identifierListLoop _ => List Val
  | .typeName => Val
  | .abstractDeclaratorOpt => Val
  | .directAbstractDeclarator => Val
  | .tryParenTypeName => Option (Val × Nat × PTok)
  | .statement => Val
  | .pragmacompOrStatement => Val
  | .blockItemListLoop _ => List Val
  | .compoundStatement => Val
  | .labeledStatement => Val
  | .selectionStatement => Val
  | .iterationStatement => Val
  | .jumpStatement => Val
  | .expression => Val
  | .exprListLoop _ => List Val
  | .assignmentExpression => Val
  | .conditionalExpression => Val
  | .binaryExpression .. => Val
  | .binaryInner .. => Val
  | .castExpression => Val
  | .unaryExpression => Val
  | .postfixExpression _ => Val
  | .postfixLoop _ => Val
  | .primaryExpression => Val
  | .offsetofLoop _ => Val
  | .argListLoop _ => List Val
  | .initializer => Val
  | .initializerList => Val
  | .initListLoop _ => List Val
  | .initializerItem => Val
  | .designatorListLoop _ => List Val
  | .pragmaDirective => Val
  | .pragmaListLoop _ => List Val
  | .staticAssert => List Val
  | .unifiedString => Val

abbrev Self := (nt : NT) → P nt.Res

/-! ## token-class tables (`c_parser.py:2164-2300`); compared with the regenerated tables by an obligation -/

def assignmentOps : List String :=
  ["EQUALS", "XOREQUAL", "TIMESEQUAL", "DIVEQUAL", "MODEQUAL", "PLUSEQUAL", "MINUSEQUAL",
   "LSHIFTEQUAL", "RSHIFTEQUAL", "ANDEQUAL", "OREQUAL"]

def binaryPrecedence : List (String × Nat) :=
  [("LOR", 0), ("LAND", 1), ("OR", 2), ("XOR", 3), ("AND", 4), ("EQ", 5), ("NE", 5),
   ("GT", 6), ("GE", 6), ("LT", 6), ("LE", 6), ("RSHIFT", 7), ("LSHIFT", 7),
   ("PLUS", 8), ("MINUS", 8), ("TIMES", 9), ("DIVIDE", 9), ("MOD", 9)]

def binPrec (kind : String) : Option Nat := (binaryPrecedence.find? (·.1 == kind)).map (·.2)

def storageClass : List String := ["AUTO", "REGISTER", "STATIC", "EXTERN", "TYPEDEF", "_THREAD_LOCAL"]
def functionSpec : List String := ["INLINE", "_NORETURN"]
def typeQualifier : List String := ["CONST", "RESTRICT", "VOLATILE", "_ATOMIC"]
def typeSpecSimple : List String :=
  ["VOID", "_BOOL", "CHAR", "SHORT", "INT", "LONG", "FLOAT", "DOUBLE", "_COMPLEX", "SIGNED",
   "UNSIGNED", "__INT128"]
def declStart : List String :=
  storageClass ++ functionSpec ++ typeQualifier ++ typeSpecSimple ++
    ["TYPEID", "STRUCT", "UNION", "ENUM", "_ALIGNAS", "_ATOMIC"]
def exprStart : List String :=
  ["ID", "LPAREN", "PLUSPLUS", "MINUSMINUS", "PLUS", "MINUS", "TIMES", "AND", "NOT", "LNOT",
   "SIZEOF", "_ALIGNOF", "OFFSETOF"]
def intConst : List String :=
  ["INT_CONST_DEC", "INT_CONST_OCT", "INT_CONST_HEX", "INT_CONST_BIN", "INT_CONST_CHAR"]
def floatConst : List String := ["FLOAT_CONST", "HEX_FLOAT_CONST"]
def charConst : List String :=
  ["CHAR_CONST", "WCHAR_CONST", "U8CHAR_CONST", "U16CHAR_CONST", "U32CHAR_CONST"]
def stringLiteral : List String := ["STRING_LITERAL"]
def wstrLiteral : List String :=
  ["WSTRING_LITERAL", "U8STRING_LITERAL", "U16STRING_LITERAL", "U32STRING_LITERAL"]
def startsExpressionSet : List String :=
  exprStart ++ intConst ++ floatConst ++ charConst ++ stringLiteral ++ wstrLiteral
def startsStatementSet : List String :=
  ["LBRACE", "IF", "SWITCH", "WHILE", "DO", "FOR", "GOTO", "BREAK", "CONTINUE", "RETURN", "CASE",
   "DEFAULT", "PPPRAGMA", "_PRAGMA", "_STATIC_ASSERT", "SEMI"]

def andM (a b : P Bool) : P Bool := do
  if ← a then b else pure false

def orM (a b : P Bool) : P Bool := do
  if ← a then pure true else b

def peekIs (k : String) : P Bool := do pure ((← peekType) == some k)
def peek2Is (k : String) : P Bool := do pure ((← peekType2) == some k)

def inSet (k : Option String) (set : List String) : Bool :=
  match k with
  | some s => set.contains s
  | none => false

def startsDeclaration : P Bool := do pure (inSet (← peekType) declStart)
def startsExpression : P Bool := do pure (inSet (← peekType) startsExpressionSet)
def startsStatement : P Bool := do
  let k ← peekType
  if k.isNone then pure false
  else if inSet k startsStatementSet then pure true
  else startsExpression

def startsDeclarator (idOnly : Bool) : P Bool := do
  match ← peekType with
  | none => pure false
  | some k =>
    if k == "TIMES" || k == "LPAREN" then pure true
    else if idOnly then pure (k == "ID")
    else pure (k == "ID" || k == "TYPEID")

def startsDirectAbstractDeclarator : P Bool := do
  let k ← peekType
  pure (k == some "LPAREN" || k == some "LBRACKET")

end PycModel
