import PycModel.Parser.Declarator
/-! Statement, directive and top-level productions (`c_parser.py:90-112, 624-720, 1542-1740,
2118-2161`) and the fuel-recursive dispatcher. -/
namespace PycModel

/-- In Python a statement slot can receive a *list* (`_parse_static_assert` returns `[node]`);
the model keeps that: a `Val.list` in a child slot. -/
def pStatement (self : Self) : P Val := do
  let k ← peekType
  if k == some "CASE" || k == some "DEFAULT" then self .labeledStatement
  else if ← andM (pure (k == some "ID")) (peek2Is "COLON") then self .labeledStatement
  else if k == some "LBRACE" then self .compoundStatement
  else if k == some "IF" || k == some "SWITCH" then self .selectionStatement
  else if k == some "WHILE" || k == some "DO" || k == some "FOR" then self .iterationStatement
  else if inSet k ["GOTO", "BREAK", "CONTINUE", "RETURN"] then self .jumpStatement
  else if k == some "PPPRAGMA" || k == some "_PRAGMA" then self .pragmaDirective
  else if k == some "_STATIC_ASSERT" then do
    match ← self .staticAssert with
    | n :: _ => pure n
    | [] => crash .index "_parse_static_assert()[0]"
  else
    -- `_parse_expression_statement`
    let expr ← if ← startsExpression then self .expression else pure Val.none
    let semi ← expect "SEMI"
    if expr.isNone then pure (mk .EmptyStatement (some (← tokCoord semi)) [])
    else pure expr

/-- `_parse_pragmacomp_or_statement` -/
def pPragmacompOrStatement (self : Self) : P Val := do
  if inSet (← peekType) ["PPPRAGMA", "_PRAGMA"] then
    let pragmas ← self (.pragmaListLoop [])
    let stmt ← self .statement
    match pragmas with
    | p :: _ => pure (mk .Compound (← coordOf p) [.list (pragmas ++ [stmt])])
    | [] => crash .index "pragmas[0]"
  else self .statement

/-- `_parse_block_item_list` / `_parse_block_item` -/
def pBlockItemListLoop (self : Self) (acc : List Val) : P (List Val) := do
  let k ← peekType
  if k.isNone || k == some "RBRACE" then pure acc else
  if ← startsDeclaration then
    let ds ← self .declaration
    -- `if item == [None]: continue` cannot trigger: declarations are nodes
    self (.blockItemListLoop (acc ++ ds))
  else
    match ← self .statement with
    | .list l => self (.blockItemListLoop (acc ++ l))
    | item => self (.blockItemListLoop (acc ++ [item]))

/-- `_parse_compound_statement` -/
def pCompoundStatement (self : Self) : P Val := do
  let lb ← expect "LBRACE"
  if (← accept "RBRACE").isSome then
    pure (mk .Compound (some (← tokCoord lb)) [.none])
  else
    let items ← self (.blockItemListLoop [])
    let _ ← expect "RBRACE"
    pure (mk .Compound (some (← tokCoord lb)) [.list items])

def labelBody (self : Self) (tok : PTok) : P Val := do
  if ← startsStatement then self .pragmacompOrStatement
  else pure (mk .EmptyStatement (some (← tokCoord tok)) [])

/-- `_parse_labeled_statement` -/
def pLabeledStatement (self : Self) : P Val := do
  let k ← peekType
  if k == some "ID" then
    let nameTok ← advance
    let _ ← expect "COLON"
    let stmt ← labelBody self nameTok
    pure (mk .Label (some (← tokCoord nameTok)) [.str nameTok.val, stmt])
  else if k == some "CASE" then
    let caseTok ← advance
    let expr ← self .conditionalExpression
    let _ ← expect "COLON"
    let stmt ← labelBody self caseTok
    pure (mk .Case (some (← tokCoord caseTok)) [expr, .list [stmt]])
  else if k == some "DEFAULT" then
    let defTok ← advance
    let _ ← expect "COLON"
    let stmt ← labelBody self defTok
    pure (mk .Default (some (← tokCoord defTok)) [.list [stmt]])
  else parseError "Invalid labeled statement" (← hereLoc)

/-- `_parse_selection_statement` -/
def pSelectionStatement (self : Self) : P Val := do
  let tok ← advance
  if tok.kind == "IF" then
    let _ ← expect "LPAREN"
    let cond ← self .expression
    let _ ← expect "RPAREN"
    let thenS ← self .pragmacompOrStatement
    if (← accept "ELSE").isSome then
      let elseS ← self .pragmacompOrStatement
      pure (mk .If (some (← tokCoord tok)) [cond, thenS, elseS])
    else pure (mk .If (some (← tokCoord tok)) [cond, thenS, .none])
  else if tok.kind == "SWITCH" then
    let _ ← expect "LPAREN"
    let expr ← self .expression
    let _ ← expect "RPAREN"
    let stmt ← self .pragmacompOrStatement
    fixSwitchCases (mk .Switch (some (← tokCoord tok)) [expr, stmt])
  else parseError "Invalid selection statement" (.coord (← tokCoord tok))

def exprOpt (self : Self) : P Val := do
  if ← startsExpression then self .expression else pure Val.none

/-- `_parse_iteration_statement` -/
def pIterationStatement (self : Self) : P Val := do
  let tok ← advance
  if tok.kind == "WHILE" then
    let _ ← expect "LPAREN"
    let cond ← self .expression
    let _ ← expect "RPAREN"
    let stmt ← self .pragmacompOrStatement
    pure (mk .While (some (← tokCoord tok)) [cond, stmt])
  else if tok.kind == "DO" then
    let stmt ← self .pragmacompOrStatement
    let _ ← expect "WHILE"
    let _ ← expect "LPAREN"
    let cond ← self .expression
    let _ ← expect "RPAREN"
    let _ ← expect "SEMI"
    pure (mk .DoWhile (some (← tokCoord tok)) [cond, stmt])
  else if tok.kind == "FOR" then
    let _ ← expect "LPAREN"
    if ← startsDeclaration then
      let decls ← self .declaration
      let init := mk .DeclList (some (← tokCoord tok)) [.list decls]
      let cond ← exprOpt self
      let _ ← expect "SEMI"
      let next ← exprOpt self
      let _ ← expect "RPAREN"
      let stmt ← self .pragmacompOrStatement
      pure (mk .For (some (← tokCoord tok)) [init, cond, next, stmt])
    else
      let init ← exprOpt self
      let _ ← expect "SEMI"
      let cond ← exprOpt self
      let _ ← expect "SEMI"
      let next ← exprOpt self
      let _ ← expect "RPAREN"
      let stmt ← self .pragmacompOrStatement
      pure (mk .For (some (← tokCoord tok)) [init, cond, next, stmt])
  else parseError "Invalid iteration statement" (.coord (← tokCoord tok))

/-- `_parse_jump_statement` -/
def pJumpStatement (self : Self) : P Val := do
  let tok ← advance
  if tok.kind == "GOTO" then
    let nameTok ← expect "ID"
    let _ ← expect "SEMI"
    pure (mk .Goto (some (← tokCoord tok)) [.str nameTok.val])
  else if tok.kind == "BREAK" then
    let _ ← expect "SEMI"
    pure (mk .Break (some (← tokCoord tok)) [])
  else if tok.kind == "CONTINUE" then
    let _ ← expect "SEMI"
    pure (mk .Continue (some (← tokCoord tok)) [])
  else if tok.kind == "RETURN" then
    if (← accept "SEMI").isSome then pure (mk .Return (some (← tokCoord tok)) [.none])
    else
      let expr ← self .expression
      let _ ← expect "SEMI"
      pure (mk .Return (some (← tokCoord tok)) [expr])
  else parseError "Invalid jump statement" (.coord (← tokCoord tok))

/-- `_parse_pppragma_directive` -/
def pPragmaDirective (self : Self) : P Val := do
  if (← peekType) == some "PPPRAGMA" then
    let tok ← advance
    if (← peekType) == some "PPPRAGMASTR" then
      let strTok ← advance
      pure (mk .Pragma (some (← tokCoord strTok)) [.str strTok.val])
    else pure (mk .Pragma (some (← tokCoord tok)) [.str ""])
  else if (← peekType) == some "_PRAGMA" then
    let _ ← advance
    let lp ← expect "LPAREN"
    let lit ← self .unifiedString
    let _ ← expect "RPAREN"
    pure (mk .Pragma (some (← tokCoord lp)) [lit])
  else parseError "Invalid pragma" (← hereLoc)

def pPragmaListLoop (self : Self) (acc : List Val) : P (List Val) := do
  if inSet (← peekType) ["PPPRAGMA", "_PRAGMA"] then
    let p ← self .pragmaDirective
    self (.pragmaListLoop (acc ++ [p]))
  else pure acc

/-- `_parse_static_assert` -/
def pStaticAssert (self : Self) : P (List Val) := do
  let tok ← expect "_STATIC_ASSERT"
  let _ ← expect "LPAREN"
  let cond ← self .conditionalExpression
  let msg ← if (← accept "COMMA").isSome then self .unifiedString else pure Val.none
  let _ ← expect "RPAREN"
  pure [mk .StaticAssert (some (← tokCoord tok)) [cond, msg]]

/-- `_parse_translation_unit` -/
def pTranslationUnitLoop (self : Self) (acc : List Val) : P (List Val) := do
  if (← peek).isNone then pure acc else
  let e ← self .externalDeclaration
  self (.translationUnitLoop (acc ++ e))

def intSpec (co : Option Coord) : DeclSpec :=
  { type := [mk .IdentifierType co [Val.strs ["int"]]] }

/-- `_parse_external_declaration` -/
def pExternalDeclaration (self : Self) : P (List Val) := do
  match ← peek with
  | none => pure []
  | some tok =>
  if tok.kind == "PPHASH" then
    let t ← expect "PPHASH"
    parseError "Directives not supported yet" (.coord (← tokCoord t))
  else if tok.kind == "PPPRAGMA" || tok.kind == "_PRAGMA" then
    pure [← self .pragmaDirective]
  else if (← accept "SEMI").isSome then pure []
  else if tok.kind == "_STATIC_ASSERT" then self .staticAssert
  else if !declStart.contains tok.kind then
    let decl ← self (.declaratorKind .id true)
    let dco ← valCoord decl "decl.coord"
    if (← peekType) != some "LBRACE" then
      parseError "Invalid function definition" (locOfCoord dco)
    else
      let body ← self .compoundStatement
      pure [← buildFunctionDefinition (intSpec dco) decl .none body]
  else
    let (spec, sawType, specCoord) ← pDeclSpecs self true
    -- `_peek_declarator_name_info`
    let m ← mark
    let (nameType, _) ← self .scanDeclaratorNameInfo
    reset m
    if nameType != some "ID" then
      let decls ← pDeclBodyWithSpec self spec sawType
      let _ ← expect "SEMI"
      pure decls
    else
      let decl ← self (.declaratorKind .id true)
      if ← orM (peekIs "LBRACE") startsDeclaration then
        let paramDecls ← if ← startsDeclaration then do
            pure (Val.list (← self (.declarationListLoop [])))
          else pure Val.none
        if (← peekType) != some "LBRACE" then
          parseError "Invalid function definition" (locOfCoord (← valCoord decl "decl.coord"))
        else
          let spec := if spec.type.isEmpty then
              { spec with type := [mk .IdentifierType specCoord [Val.strs ["int"]]] } else spec
          let body ← self .compoundStatement
          pure [← buildFunctionDefinition spec decl paramDecls body]
      else
        let init ← if (← accept "EQUALS").isSome then self .initializer else pure Val.none
        let infos ← self (.initDeclaratorListLoop [{ decl := decl, init := init }] false)
        let decls ← buildDeclarations spec infos true
        let _ ← expect "SEMI"
        pure decls

/-- one unfolding of every production -/
def prod (self : Self) : (nt : NT) → P nt.Res
  | .translationUnitLoop acc => pTranslationUnitLoop self acc
  | .externalDeclaration => pExternalDeclaration self
  | .declaration => pDeclaration self
  | .declBody => pDeclBody self
  | .declarationListLoop acc => pDeclarationListLoop self acc
  | .declSpecsLoop s t f => pDeclSpecsLoop self s t f
  | .sqlLoop s t a f => pSqlLoop self s t a f
  | .alignmentSpecifier => pAlignmentSpecifier self
  | .atomicSpecifier => pAtomicSpecifier self
  | .initDeclaratorListLoop acc io => pInitDeclaratorListLoop self acc io
  | .initDeclarator io => pInitDeclarator self io
  | .structOrUnionSpecifier => pStructOrUnionSpecifier self
  | .structDeclListLoop acc => pStructDeclListLoop self acc
  | .structDeclaration => pStructDeclaration self
  | .structDeclaratorListLoop acc => pStructDeclaratorListLoop self acc
  | .structDeclarator => pStructDeclarator self
  | .enumSpecifier => pEnumSpecifier self
  | .enumeratorListLoop acc => pEnumeratorListLoop self acc
  | .enumerator => pEnumerator self
  | .anyDeclarator a t => pAnyDeclarator self a t
  | .scanDeclaratorNameInfo => pScanDeclaratorNameInfo self
  | .scanStars => pScanStars self
  | .scanQuals => pScanQuals self
  | .scanParenSkip d => pScanParenSkip self d
  | .declaratorKind k a => pDeclaratorKind self k a
  | .directDeclarator k a => pDirectDeclarator self k a
  | .declSuffixesLoop d => pDeclSuffixesLoop self d
  | .arrayDeclCommon b c => pArrayDeclCommon self b c
  | .functionDecl b => pFunctionDecl self b
  | .pointer => pPointer self
  | .pointerLoop s => pPointerLoop self s
  | .typeQualifierListLoop acc => pTypeQualifierListLoop self acc
  | .parameterTypeList => pParameterTypeList self
  | .parameterListLoop acc => pParameterListLoop self acc
  | .parameterDeclaration => pParameterDeclaration self
  | .identifierListLoop acc => pIdentifierListLoop self acc
  | .typeName => pTypeName self
  | .abstractDeclaratorOpt => pAbstractDeclaratorOpt self
  | .directAbstractDeclarator => pDirectAbstractDeclarator self
  | .tryParenTypeName => pTryParenTypeName self
  | .statement => pStatement self
  | .pragmacompOrStatement => pPragmacompOrStatement self
  | .blockItemListLoop acc => pBlockItemListLoop self acc
  | .compoundStatement => pCompoundStatement self
  | .labeledStatement => pLabeledStatement self
  | .selectionStatement => pSelectionStatement self
  | .iterationStatement => pIterationStatement self
  | .jumpStatement => pJumpStatement self
  | .expression => pExpression self
  | .exprListLoop acc => pExprListLoop self acc
  | .assignmentExpression => pAssignmentExpression self
  | .conditionalExpression => pConditionalExpression self
  | .binaryExpression mp lhs => pBinaryExpression self mp lhs
  | .binaryInner p r => pBinaryInner self p r
  | .castExpression => pCastExpression self
  | .unaryExpression => pUnaryExpression self
  | .postfixExpression ct => pPostfixExpression self ct
  | .postfixLoop e => pPostfixLoop self e
  | .primaryExpression => pPrimaryExpression self
  | .offsetofLoop n => pOffsetofLoop self n
  | .argListLoop acc => pArgListLoop self acc
  | .initializer => pInitializer self
  | .initializerList => pInitializerList self
  | .initListLoop acc => pInitListLoop self acc
  | .initializerItem => pInitializerItem self
  | .designatorListLoop acc => pDesignatorListLoop self acc
  | .pragmaDirective => pPragmaDirective self
  | .pragmaListLoop acc => pPragmaListLoop self acc
  | .staticAssert => pStaticAssert self
  | .unifiedString => pUnifiedString

/-- the only recursive function of the parser model: structural on fuel -/
def run : Nat → Self
  | 0, _ => P.fail .fuel
  | fuel+1, nt => prod (run fuel) nt

/-- outcome of `CParser.parse(text, filename)` -/
inductive Outcome
  | ast (v : Val)
  | parseError (loc : Loc) (msg : String)
  | crash (k : Crash) (site : String)
  | fuel
  deriving Repr, Inhabited

def initState (evs : List SEv) : PState :=
  { raw := evs, pulled := 0, fileRef := 0, buf := #[], idx := 0, scopes := [[]], lexCalls := 0, ticks := 0 }

/-- outcome of the parser core: like `Outcome` but with pseudo-coordinates -/
inductive CoreOutcome
  | ast (v : Val)
  | parseError (loc : Loc) (msg : String)
  | lexError (i : Nat)
  | crash (k : Crash) (site : String)
  | fuel
  deriving Repr, Inhabited

/-- `CParser.parse` as a function of the stripped event stream only -/
def parseCore (fuel : Nat) (evs : List SEv) : CoreOutcome × Option PState :=
  let p : P Val := do
    let ext ← (do
      if (← peek).isNone then pure [] else run fuel (.translationUnitLoop []))
    match ← peek with
    | some tok => parseError ("before: " ++ tok.val) (.coord (← tokCoord tok))
    | none => pure (mk .FileAST none [.list ext])
  match p (initState evs) with
  | .ok v s => (.ast v, some s)
  | .err (.parse loc msg) => (.parseError loc msg, none)
  | .err (.lex i) => (.lexError i, none)
  | .err (.crash k site) => (.crash k site, none)
  | .err .fuel => (.fuel, none)

/-- what `finish` needs to know about each stripped event -/
structure EvInfo where
  line : Nat
  col : Nat
  file : String
  msg : String
  deriving Repr, Inhabited

def stripEv : Ev → Option (SEv × EvInfo)
  | .tok t _ file => some (.tok t.kind t.val, ⟨t.line, t.col, file, ""⟩)
  | .err msg line col _ file => some (.err, ⟨line, col, file, msg⟩)
  | .eof file => some (.eof, ⟨0, 0, file, ""⟩)
  | .stuck => some (.stuck, ⟨0, 0, "", ""⟩)
  | .dir _ _ => none

def strip (evs : List Ev) : List SEv := (evs.filterMap stripEv).map (·.1)
def infos (evs : List Ev) : Array EvInfo := ((evs.filterMap stripEv).map (·.2)).toArray

def resolveFile (inf : Array EvInfo) (file0 : String) (r : Nat) : String :=
  match r with
  | 0 => file0
  | k+1 => (inf[k]?.map (·.file)).getD file0

def resolveCoord (inf : Array EvInfo) (file0 : String) (c : Coord) : Coord :=
  let i := inf[c.line]?.getD default
  ⟨resolveFile inf file0 (c.col.getD 0), i.line, some i.col⟩

mutual
def Val.mapCoords (f : Coord → Coord) : Val → Val
  | .none => .none
  | .str s => .str s
  | .list vs => .list (Val.mapCoordsL f vs)
  | .node c co fs => .node c (co.map f) (Val.mapCoordsL f fs)
def Val.mapCoordsL (f : Coord → Coord) : List Val → List Val
  | [] => []
  | v :: vs => v.mapCoords f :: Val.mapCoordsL f vs
end

def resolveLoc (inf : Array EvInfo) (file0 : String) : Loc → Loc
  | .coord c => .coord (resolveCoord inf file0 c)
  | .fileRef r => .text (resolveFile inf file0 r)
  | l => l

/-- translate the core's pseudo-coordinates into real ones -/
def finish (inf : Array EvInfo) (file0 : String) : CoreOutcome → Outcome
  | .ast v => .ast (v.mapCoords (resolveCoord inf file0))
  | .parseError loc msg => .parseError (resolveLoc inf file0 loc) msg
  | .lexError i =>
    let e := inf[i]?.getD default
    .parseError (.coord ⟨e.file, e.line, some e.col⟩) e.msg
  | .crash k site => .crash k site
  | .fuel => .fuel

/-- `CParser.parse` on a pre-scanned event list: `finish ∘ parseCore ∘ strip` -/
def parseEvents (fuel : Nat) (evs : List Ev) (file : String) : Outcome × Option PState :=
  let r := parseCore fuel (strip evs)
  (finish (infos evs) file r.1, r.2)

def parseText (cfg : LexCfg) (fuel : Nat) (text : String) (file : String) : Outcome × Option PState :=
  parseEvents fuel (scan cfg (fun _ => false) text.toList file) file

end PycModel
