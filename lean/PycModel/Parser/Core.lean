import PycModel.Ast
import PycModel.Lexer
/-!
# Parser model: state, monad, token stream, scope stack, AST-building helpers

Mirrors the non-grammar part of `pycparser/c_parser.py` (`_TokenStream`, scope helpers,
`_type_modify_decl`, `_fix_decl_name_type`, `_build_declarations`, …) and `ast_transforms.py`.
Python objects are immutable `Val`s here; every in-place mutation of the Python code is a
function returning the new value.  Every Python operation that can raise something other than
`ParseError` is explicit: it yields `Err.crash`.
-/
namespace PycModel

inductive Crash | assertion | attribute | value | index | type | key
  deriving DecidableEq, Repr, Inhabited

/-- the `coord` argument of `_parse_error`: a `Coord`, a string (file name or "?"), or `None` -/
inductive Loc
  | coord (c : Coord)
  | text (s : String)
  | fileRef (r : Nat)      -- `self.clex.filename` at the time (resolved by `finish`)
  | none
  deriving Repr, Inhabited, DecidableEq

def Loc.str : Loc → String
  | .coord c => c.str
  | .text s => s
  | .fileRef r => "<file#" ++ toString r ++ ">"
  | .none => "None"

inductive Err
  | parse (loc : Loc) (msg : String)      -- `ParseError(f"{coord}: {msg}")`
  | lex (i : Nat)                         -- the lexer's error callback fired on stripped event `i`
  | crash (k : Crash) (site : String)     -- any other exception escaping
  | fuel                                  -- recursion budget exhausted (Python: RecursionError)
  deriving Repr, Inhabited

/-- All the parser core can see of a lexer event: the class and spelling of a token, or the
fact that the error callback fires / the input ends.  Positions and file names are *not*
visible: the core refers to a token by its index in this stream, and `finish` (Parser/Stmt.lean)
translates indices into `Coord`s afterwards. -/
inductive SEv
  | tok (kind val : String)
  | err
  | eof
  | stuck
  deriving Repr, Inhabited, DecidableEq

structure PTok where
  kind : String
  val : String
  /-- index of the token's event in the stripped stream -/
  idx : Nat
  deriving Repr, Inhabited, DecidableEq, BEq

abbrev Scope := List (String × Bool)

structure PState where
  /-- what the lexer will still produce (pre-scanned with every identifier as `ID`) -/
  raw : List SEv
  /-- index (in the stripped stream) of the head of `raw` -/
  pulled : Nat
  /-- reference to the lexer's current file name (`self.clex.filename`): 0 = the name passed to
  `parse`, k+1 = the name in force when stripped event k was returned -/
  fileRef : Nat
  /-- `_TokenStream._buffer` -/
  buf : Array (Option PTok)
  /-- `_TokenStream._index` -/
  idx : Nat
  /-- `_scope_stack`, innermost first -/
  scopes : List Scope
  /-- number of `lexer.token()` calls made (cost measure, C16) -/
  lexCalls : Nat
  /-- number of token-stream primitive operations (peek/next/reset) (cost measure, C16) -/
  ticks : Nat
  deriving Inhabited

inductive Res (α : Type) where
  | ok (a : α) (s : PState)
  | err (e : Err)
  deriving Inhabited

def P (α : Type) := PState → Res α

instance : Monad P where
  pure a := fun s => .ok a s
  bind m f := fun s => match m s with
    | .ok a s' => f a s'
    | .err e => .err e

def P.fail {α} (e : Err) : P α := fun _ => .err e
def parseError {α} (msg : String) (loc : Loc) : P α := P.fail (.parse loc msg)
def crash {α} (k : Crash) (site : String) : P α := P.fail (.crash k site)
def getState : P PState := fun s => .ok s s
def modifyState (f : PState → PState) : P Unit := fun s => .ok () (f s)

/-- `[f(x) for x in l]` inside the monad -/
def mapP {α β} (f : α → P β) (l : List α) : P (List β) :=
  match l with
  | [] => pure []
  | x :: xs => do
    let y ← f x
    let ys ← mapP f xs
    pure (y :: ys)

/-- lift an `Option` whose `none` is a Python `AttributeError` -/
def attrOrCrash {α} (o : Option α) (site : String) : P α :=
  match o with
  | some a => pure a
  | none => crash .attribute site

/-! ## scope stack -/

def scopeLookup (sc : Scope) (n : String) : Option Bool := (sc.find? (·.1 == n)).map (·.2)

def scopeSet (sc : Scope) (n : String) (b : Bool) : Scope :=
  (n, b) :: sc.filter (·.1 != n)

/-- `_is_type_in_scope` -/
def isTypeInScopes : List Scope → String → Bool
  | [], _ => false
  | sc :: rest, n =>
    match scopeLookup sc n with
    | some b => b
    | none => isTypeInScopes rest n

def isTypeInScope (n : String) : P Bool := fun s => .ok (isTypeInScopes s.scopes n) s

def pushScope : P Unit := modifyState fun s => { s with scopes := [] :: s.scopes }

/-- `_pop_scope`: pops unless only the file scope is left -/
def popScope : P Unit := fun s =>
  match s.scopes with
  | _ :: b :: rest => .ok () { s with scopes := b :: rest }
  | _ => .ok () s

def locOfCoord (c : Option Coord) : Loc :=
  match c with
  | some k => .coord k
  | none => .none

/-- `_add_typedef_name` -/
def addTypedefName (name : String) (coord : Option Coord) : P Unit := fun s =>
  match s.scopes with
  | [] => .err (.crash .index "_scope_stack[-1]")
  | sc :: rest =>
    if (scopeLookup sc name).getD true == false then
      .err (.parse (locOfCoord coord)
        ("Typedef '" ++ name ++ "' previously declared as non-typedef in this scope"))
    else .ok () { s with scopes := scopeSet sc name true :: rest }

/-- `_add_identifier` -/
def addIdentifier (name : String) (coord : Option Coord) : P Unit := fun s =>
  match s.scopes with
  | [] => .err (.crash .index "_scope_stack[-1]")
  | sc :: rest =>
    if (scopeLookup sc name).getD false == true then
      .err (.parse (locOfCoord coord)
        ("Non-typedef '" ++ name ++ "' previously declared as typedef in this scope"))
    else .ok () { s with scopes := scopeSet sc name false :: rest }

/-! ## lexer pull (with the three callbacks) and token stream -/

/-- one call of `self.clex.token()` as seen from the parser: classification of identifiers
against the scope stack *now*, scope push/pop on braces *now*, error callback raising. -/
def lexToken : P (Option PTok) := fun s =>
  match s.raw with
  | [] => .ok none { s with lexCalls := s.lexCalls + 1 }
  | .eof :: _ => .ok none { s with fileRef := s.pulled + 1, lexCalls := s.lexCalls + 1 }
  | .stuck :: _ => .err .fuel
  | .err :: _ => .err (.lex s.pulled)
  | .tok k v :: r =>
    let i := s.pulled
    let s := { s with raw := r, pulled := i + 1, fileRef := i + 1, lexCalls := s.lexCalls + 1 }
    let kind := if k == "ID" && isTypeInScopes s.scopes v then "TYPEID" else k
    let tok : PTok := ⟨kind, v, i⟩
    if k == "LBRACE" then
      .ok (some tok) { s with scopes := [] :: s.scopes }
    else if k == "RBRACE" then
      match s.scopes with
      | _ :: b :: rest => .ok (some tok) { s with scopes := b :: rest }
      | _ => .ok (some tok) s
    else .ok (some tok) s

/-- `_TokenStream._fill(n)` (at most `n` iterations are ever needed) -/
def fill : Nat → Nat → P Unit
  | 0, _ => pure ()
  | fuel+1, n => fun s =>
    if s.buf.size < s.idx + n then
      match lexToken s with
      | .err e => .err e
      | .ok tok s' =>
        let s'' := { s' with buf := s'.buf.push tok }
        match tok with
        | none => .ok () s''
        | some _ => fill fuel n s''
    else .ok () s

/-- `_TokenStream.peek(k)` -/
def peekK (k : Nat) : P (Option PTok) := fun s =>
  if k == 0 then .ok none s else
  match fill k k { s with ticks := s.ticks + 1 } with
  | .err e => .err e
  | .ok _ s' =>
    match s'.buf[s'.idx + k - 1]? with
    | some t => .ok t s'
    | none => .err (.crash .index "_TokenStream.peek")

def peek : P (Option PTok) := peekK 1

def peekType : P (Option String) := do
  let t ← peek
  pure (t.map (·.kind))

def peekType2 : P (Option String) := do
  let t ← peekK 2
  pure (t.map (·.kind))

/-- `_TokenStream.next()` -/
def nextTok : P (Option PTok) := fun s =>
  match fill 1 1 { s with ticks := s.ticks + 1 } with
  | .err e => .err e
  | .ok _ s' =>
    match s'.buf[s'.idx]? with
    | some t => .ok t { s' with idx := s'.idx + 1 }
    | none => .err (.crash .index "_TokenStream.next")

def mark : P Nat := fun s => .ok s.idx s
def reset (m : Nat) : P Unit := modifyState fun s => { s with idx := m, ticks := s.ticks + 1 }

/-- `self.clex.filename` as an error location -/
def lexFileLoc : P Loc := fun s => .ok (.fileRef s.fileRef) s

/-- `_tok_coord` : line, column and file name recorded on the token when it was lexed.
In the core this is the pseudo-coordinate (token index, file reference `idx + 1` = the file in
force when that token was returned) in the `line` / `col` fields; `finish` resolves it. -/
def tokCoord (t : PTok) : P Coord := fun s => .ok ⟨"", t.idx, some (t.idx + 1)⟩ s

/-- `_here()`: the location of the next token, for errors raised when it cannot start what the
grammar expects; the file name at the end of the input -/
def hereLoc : P Loc := do
  match ← peek with
  | some tok => pure (.coord (← tokCoord tok))
  | none => lexFileLoc

/-- `_advance` -/
def advance : P PTok := do
  match ← nextTok with
  | some t => pure t
  | none => parseError "At end of input" (← lexFileLoc)

/-- `_accept` -/
def accept (kind : String) : P (Option PTok) := do
  match ← peek with
  | some t => if t.kind == kind then (do let t ← advance; pure (some t)) else pure none
  | none => pure none

/-- `_expect` -/
def expect (kind : String) : P PTok := do
  let t ← advance
  if t.kind != kind then
    parseError ("before: " ++ t.val) (.coord (← tokCoord t))
  else pure t

/-! ## node construction helpers -/

def mk (c : Cls) (coord : Option Coord) (fs : List Val) : Val := .node c coord fs

def emptyTypeDecl : Val := mk .TypeDecl none [.none, .none, .none, .none]

def valCoord (v : Val) (site : String) : P (Option Coord) :=
  attrOrCrash v.coord? site

def isInstance (v : Val) (cs : List Cls) : Bool :=
  match v.cls? with
  | some c => cs.contains c
  | none => false

def strList (v : Val) : Option (List String) :=
  match v with
  | .list vs => vs.mapM fun x => match x with | .str s => some s | _ => none
  | _ => none

def listContainsStr (v : Val) (s : String) : Option Bool :=
  match v with
  | .list vs => some (vs.any fun x => x == .str s)
  | .str t => some ((t.splitOn s).length > 1)      -- `"x" in "string"`: substring test
  | _ => none

/-! ## `_type_modify_decl` -/

/-- follow `.type` links to the tail of a modifier chain (`while modifier_tail.type:`) and set
the tail's `.type` to `x`.  `fuel` bounds the chain length. -/
def setChainTail : Nat → Val → Val → Option Val
  | 0, _, _ => none
  | fuel+1, m, x =>
    match m.getAttr "type" with
    | none => none                               -- AttributeError
    | some t =>
      if t.truthy then
        (setChainTail fuel t x).bind fun t' => m.setAttr "type" t'
      else m.setAttr "type" x

/-- in a declarator chain `decl` (not itself a TypeDecl) replace the final TypeDecl `td` by
`f td` (`while not isinstance(decl_tail.type, TypeDecl)`) -/
def spliceBeforeTypeDecl : Nat → Val → (Val → Option Val) → Option Val
  | 0, _, _ => none
  | fuel+1, d, f =>
    match d.getAttr "type" with
    | none => none
    | some t =>
      if t.isCls .TypeDecl then (f t).bind fun t' => d.setAttr "type" t'
      else (spliceBeforeTypeDecl fuel t f).bind fun t' => d.setAttr "type" t'

def typeModifyDecl (decl modifier : Val) : P Val :=
  let fuel := decl.tlen + modifier.tlen + 1
  if decl.isCls .TypeDecl then
    attrOrCrash (setChainTail fuel modifier decl) "_type_modify_decl: modifier_tail.type"
  else
    attrOrCrash
      (spliceBeforeTypeDecl fuel decl fun td => setChainTail fuel modifier td)
      "_type_modify_decl: decl_tail.type"

/-! ## `_fix_decl_name_type` -/

/-- apply `f` to the innermost `TypeDecl` of a declaration (`while not isinstance(typ, TypeDecl): typ = typ.type`) -/
def mapInnerTypeDecl : Nat → Val → (Val → Option Val) → Option Val
  | 0, _, _ => none
  | fuel+1, d, f =>
    if d.isCls .TypeDecl then f d
    else match d.getAttr "type" with
      | none => none
      | some t => (mapInnerTypeDecl fuel t f).bind fun t' => d.setAttr "type" t'

def innerTypeDecl : Nat → Val → Option Val
  | 0, _ => none
  | fuel+1, d =>
    if d.isCls .TypeDecl then some d
    else (d.getAttr "type").bind (innerTypeDecl fuel)

/-- `decl.quals[:]` -/
def copyList (v : Val) : Option Val :=
  match v with
  | .list vs => some (.list vs)
  | .str s => some (.str s)
  | _ => none        -- `None[:]` : TypeError

def fixDeclNameType (decl : Val) (typename : List Val) : P Val := do
  let fuel := decl.tlen + 1
  let typ ← attrOrCrash (innerTypeDecl fuel decl) "_fix_decl_name_type: typ.type"
  let declname ← attrOrCrash (typ.getAttr "declname") "declname"
  let decl ← attrOrCrash (decl.setAttr "name" declname) "decl.name"
  let quals ← attrOrCrash (decl.getAttr "quals") "decl.quals"
  let qcopy ← match copyList quals with
    | some q => pure q
    | none => crash .type "decl.quals[:]"
  let setTyp (decl : Val) (f : Val → Option Val) : P Val :=
    attrOrCrash (mapInnerTypeDecl fuel decl f) "_fix_decl_name_type"
  let decl ← setTyp decl fun td => td.setAttr "quals" qcopy
  -- first non-IdentifierType entry decides
  match typename.find? (fun tn => !tn.isCls .IdentifierType) with
  | some tn =>
    if typename.length > 1 then
      let co ← valCoord tn "tn.coord"
      parseError "Invalid multiple types specified" (locOfCoord co)
    else setTyp decl fun td => td.setAttr "type" tn
  | none =>
    if typename.isEmpty then
      let dty ← attrOrCrash (decl.getAttr "type") "decl.type"
      let dco ← valCoord decl "decl.coord"
      if !dty.isCls .FuncDecl then
        parseError "Missing type in declaration" (locOfCoord dco)
      else
        setTyp decl fun td => td.setAttr "type" (mk .IdentifierType dco [Val.strs ["int"]])
    else
      let names ← mapP (l := typename) fun idt => do
        let ns ← attrOrCrash (idt.getAttr "names") "id.names"
        match ns with
        | .list l => pure l
        | .str s => pure (s.toList.map fun c => Val.str (String.singleton c))
        | _ => crash .type "id.names"
      let co ← valCoord (typename.head!) "typename[0].coord"
      setTyp decl fun td => td.setAttr "type" (mk .IdentifierType co [.list names.flatten])

/-! ## `ast_transforms.fix_atomic_specifiers` -/

/-- the chain `decl, decl.type, decl.type.type, …` down to the first `Typename` carrying `_Atomic`
(exclusive of nothing: the found node is the last element).  `none` = not found (AttributeError or
end of chain); the Bool tells whether the walk ended on a `None` link (Python then trips over
`node.type` on `None`). -/
def atomicPath : Nat → Val → List Val → Option (List Val)
  | 0, _, _ => none
  | fuel+1, node, acc =>
    match node with
    | .none => some (node :: acc)      -- `while node is not None` exits with node = None
    | _ =>
      if node.isCls .Typename && (((node.getAttr "quals").bind (listContainsStr · "_Atomic")).getD false) then
        some (node :: acc)
      else
        match node.getAttr "type" with
        | none => none                 -- AttributeError: give up, decl unmodified
        | some t => atomicPath fuel t (node :: acc)

/-- rebuild a chain bottom-up: `path` is innermost-first list of ancestors whose `.type` must be re-set -/
def rebuildChain : List Val → Val → Option Val
  | [], x => some x
  | p :: ps, x => (p.setAttr "type" x).bind (rebuildChain ps)

def fixAtomicOnce (decl : Val) : P (Val × Bool) := do
  let dty ← attrOrCrash (decl.getAttr "type") "decl.type"
  match atomicPath (decl.tlen + 1) dty [decl] with
  | none => pure (decl, false)
  | some (node :: parent :: rest) =>
    if !parent.isCls .TypeDecl then crash .assertion "_fix_atomic_specifiers_once: parent" else
    match rest with
    | [] => crash .assertion "_fix_atomic_specifiers_once: grandparent"
    | grand :: above =>
      let inner ← attrOrCrash (node.getAttr "type") "node.type"
      let ico ← valCoord inner "node.type.coord"
      let pco ← valCoord parent "parent.coord"
      let inner := if ico.isNone then inner.setCoord pco else inner
      let iq ← attrOrCrash (inner.getAttr "quals") "node.type.quals"
      let has ← match listContainsStr iq "_Atomic" with
        | some b => pure b
        | none => crash .type "node.type.quals"
      let inner ← if has then pure inner else
        match iq with
        | .list l => attrOrCrash (inner.setAttr "quals" (.list (l ++ [.str "_Atomic"]))) "quals"
        | _ => crash .attribute "node.type.quals.append"
      let rebuilt ← attrOrCrash (rebuildChain (grand :: above) inner) "grandparent.type"
      pure (rebuilt, true)
  | some _ => crash .assertion "_fix_atomic_specifiers_once"

def fixAtomicLoop : Nat → Val → P Val
  | 0, _ => P.fail .fuel
  | fuel+1, decl => do
    let (d, found) ← fixAtomicOnce decl
    if found then fixAtomicLoop fuel d else pure d

/-- returns the fixed declaration and its (possibly extended) `quals` list, which in Python is the
*shared* `spec["qual"]` list object. -/
def fixAtomicSpecifiers (decl : Val) : P Val := do
  let decl ← fixAtomicLoop (decl.tlen + 1) decl
  let fuel := decl.tlen + 1
  match innerTypeDecl fuel decl with
  | none => pure decl                      -- AttributeError on the way down: return decl
  | some typ =>
    let tq ← attrOrCrash (typ.getAttr "quals") "typ.quals"
    let dq ← attrOrCrash (decl.getAttr "quals") "decl.quals"
    let tHas ← match listContainsStr tq "_Atomic" with
      | some b => pure b | none => crash .type "'_Atomic' in typ.quals"
    let decl ← if tHas then do
        let dHas ← match listContainsStr dq "_Atomic" with
          | some b => pure b | none => crash .type "'_Atomic' in decl.quals"
        if dHas then pure decl else
          match dq with
          | .list l => attrOrCrash (decl.setAttr "quals" (.list (l ++ [.str "_Atomic"]))) "decl.quals"
          | _ => crash .attribute "decl.quals.append"
      else pure decl
    let dn ← attrOrCrash (typ.getAttr "declname") "typ.declname"
    if dn.isNone then
      let nm ← attrOrCrash (decl.getAttr "name") "decl.name"
      attrOrCrash (mapInnerTypeDecl (decl.tlen + 1) decl fun td => td.setAttr "declname" nm) "typ.declname="
    else pure decl

/-! ## `ast_transforms.fix_switch_cases` -/

def isCaseOrDefault (v : Val) : Bool := v.isCls .Case || v.isCls .Default

/-- `_extract_nested_case`: returns the case (with its nested case popped) followed by the
promoted nested cases -/
def extractNestedCase : Nat → Val → P (List Val)
  | 0, _ => P.fail .fuel
  | fuel+1, c => do
    let stmts ← attrOrCrash (c.getAttr "stmts") "case_node.stmts"
    match stmts with
    | .list (first :: rest) =>
      if isCaseOrDefault first then
        let all := first :: rest
        let nested := all.getLast!
        let c' ← attrOrCrash (c.setAttr "stmts" (.list all.dropLast)) "stmts"
        let more ← extractNestedCase fuel nested
        pure (c' :: more)
      else pure [c]
    | .list [] => crash .index "case_node.stmts[0]"
    | _ => crash .type "case_node.stmts[0]"

/-- append a statement to the `stmts` of the last element of `items` (`last_case.stmts.append`) -/
def appendToLast (items : List Val) (child : Val) : P (List Val) :=
  match items.reverse with
  | [] => crash .attribute "last_case.stmts"
  | last :: revInit => do
    let stmts ← attrOrCrash (last.getAttr "stmts") "last_case.stmts"
    match stmts with
    | .list l =>
      let last' ← attrOrCrash (last.setAttr "stmts" (.list (l ++ [child]))) "stmts"
      pure (revInit.reverse ++ [last'])
    | _ => crash .attribute "last_case.stmts.append"

def fixSwitchLoop : List Val → List Val → Bool → P (List Val)
  | [], acc, _ => pure acc
  | child :: rest, acc, haveCase =>
    if isCaseOrDefault child then do
      let ex ← extractNestedCase (child.size + 1) child
      fixSwitchLoop rest (acc ++ ex) true
    else if haveCase then do
      let acc' ← appendToLast acc child
      fixSwitchLoop rest acc' true
    else fixSwitchLoop rest (acc ++ [child]) false

def fixSwitchCases (sw : Val) : P Val := do
  if !sw.isCls .Switch then crash .assertion "fix_switch_cases" else
  let stmt ← attrOrCrash (sw.getAttr "stmt") "switch_node.stmt"
  if !stmt.isCls .Compound then pure sw else
  let items ← attrOrCrash (stmt.getAttr "block_items") "block_items"
  let co ← valCoord stmt "stmt.coord"
  let l ← match items with
    | .list l => pure l
    | .none => pure []
    | .str s => if s.isEmpty then pure [] else crash .attribute "iterating str"
    | .node .. => crash .type "iterating node"
  let newItems ← fixSwitchLoop l [] false
  attrOrCrash (sw.setAttr "stmt" (mk .Compound co [.list newItems])) "switch_node.stmt="

end PycModel
