import PycModel.Parser.Expr
/-! Declaration-building helpers and declaration / specifier / struct / enum productions
(`c_parser.py:293-437, 722-1216`). -/
namespace PycModel

def addSpec (spec : Option DeclSpec) (f : DeclSpec → DeclSpec) : Option DeclSpec :=
  some (f (spec.getD {}))

def specHasTypedef (spec : DeclSpec) : Bool := spec.storage.any (· == .str "typedef")

/-- `spec["type"][-1].names` with its crash sites: IndexError on an empty list, AttributeError
when the last entry is not an `IdentifierType` -/
def lastTypeNames (spec : DeclSpec) : P (List Val) := do
  match spec.type.getLast? with
  | none => crash .index "spec['type'][-1]"
  | some t =>
    match ← attrOrCrash (t.getAttr "names") "spec['type'][-1].names" with
    | .list l => pure l
    | .str s => pure (s.toList.map fun c => Val.str (String.singleton c))
    | _ => crash .type "len(names)"

def strOf (v : Val) : String := match v with | .str s => s | _ => ""

/-- first-declarator fix-ups of `_build_declarations` (`c_parser.py:329-370`) -/
def bdFirstFix (spec : DeclSpec) (decls : List DeclInfo) (d0 : DeclInfo) : P (DeclSpec × List DeclInfo) := do
  if !d0.bitsize.isNone then pure (spec, decls) else
  if d0.decl.isNone then
    let bad : P Bool := do
      if spec.type.length < 2 then pure true else
      if !(spec.type.getLast!).isCls .IdentifierType then pure true else
      let names ← lastTypeNames spec
      if names.length != 1 then pure true else
      pure (!(← isTypeInScope (strOf names.head!)))
    if ← bad then
      match spec.type with
      | [] => parseError "Invalid declaration" (← hereLoc)
      | t :: _ =>
        match t.coord? with
        | some co => parseError "Invalid declaration" (locOfCoord co)
        | none => parseError "Invalid declaration" (.text "?")   -- not a node: no `coord`
    else
      let names ← lastTypeNames spec
      let lastT := spec.type.getLast!
      let co ← valCoord lastT "spec['type'][-1].coord"
      let td := mk .TypeDecl co [names.head!, .none, .none, .list spec.alignment]
      pure ({ spec with type := spec.type.dropLast }, { d0 with decl := td } :: decls.tail)
  else if !isInstance d0.decl [.Enum, .Struct, .Union, .IdentifierType] then
    let fuel := d0.decl.tlen + 1
    let tail ← attrOrCrash (innerTypeDecl fuel d0.decl) "decls_0_tail.type"
    let dn ← attrOrCrash (tail.getAttr "declname") "declname"
    if dn.isNone then
      let lastT ← match spec.type.getLast? with
        | none => crash .index "spec['type'][-1]"
        | some t => pure t
      if !lastT.isCls .IdentifierType then
        parseError "Invalid declaration" (locOfCoord (← valCoord d0.decl "decls[0]['decl'].coord"))
      else
      let names ← lastTypeNames spec
      let nm ← match names with
        | n :: _ => pure n
        | [] => crash .index "names[0]"
      let d' ← attrOrCrash (mapInnerTypeDecl fuel d0.decl fun td => td.setAttr "declname" nm) "declname="
      pure ({ spec with type := spec.type.dropLast }, { d0 with decl := d' } :: decls.tail)
    else pure (spec, decls)
  else pure (spec, decls)

/-- one iteration of the `for decl in decls` loop: returns the finished declaration and the
(possibly extended) shared `spec["qual"]` list -/
def bdOne (spec : DeclSpec) (isTypedef typedefNamespace : Bool) (d : DeclInfo) (quals : List Val) :
    P (Val × List Val) := do
  if d.decl.isNone then crash .assertion "decl['decl'] is not None" else
  let dco ← valCoord d.decl "decl['decl'].coord"
  let declaration :=
    if isTypedef then
      mk .Typedef dco [.none, .list quals, .list spec.storage, d.decl]
    else
      mk .Decl dco [.none, .list quals, .list spec.alignment, .list spec.storage,
        .list spec.function, d.decl, d.init, d.bitsize]
  let fixed ← if isInstance d.decl [.Enum, .Struct, .Union, .IdentifierType] then pure declaration
    else fixDeclNameType declaration spec.type
  if typedefNamespace then
    let nm ← attrOrCrash (fixed.getAttr "name") "fixed_decl.name"
    let fco ← valCoord fixed "fixed_decl.coord"
    match nm with
    | .str n => if isTypedef then addTypedefName n fco else addIdentifier n fco
    | _ => pure ()
  let fixed ← fixAtomicSpecifiers fixed
  let q' ← attrOrCrash (fixed.getAttr "quals") "quals"
  let quals' := match q' with | .list l => l | _ => quals
  pure (fixed, quals')

def bdLoop (spec : DeclSpec) (isTypedef typedefNamespace : Bool) :
    List DeclInfo → List Val → List Val → P (List Val × List Val)
  | [], quals, acc => pure (quals, acc)
  | d :: rest, quals, acc => do
    let r ← bdOne spec isTypedef typedefNamespace d quals
    bdLoop spec isTypedef typedefNamespace rest r.2 (acc ++ [r.1])

/-- `_build_declarations` -/
def buildDeclarations (spec : DeclSpec) (decls : List DeclInfo) (typedefNamespace : Bool) :
    P (List Val) := do
  let isTypedef := specHasTypedef spec
  let d0 ← match decls with
    | d :: _ => pure d
    | [] => crash .index "decls[0]"
  let sd ← bdFirstFix spec decls d0
  -- the loop; `quals` is the shared `spec["qual"]` list object
  let r ← bdLoop sd.1 isTypedef typedefNamespace sd.2 sd.1.qual []
  -- all declarations alias the one `spec["qual"]` list: later appends are visible in earlier ones
  mapP (fun d => attrOrCrash (d.setAttr "quals" (.list r.1)) "quals") r.2

/-- `_build_function_definition` -/
def buildFunctionDefinition (spec : DeclSpec) (decl : Val) (paramDecls : Val) (body : Val) : P Val := do
  let dco ← valCoord decl "decl.coord"
  if specHasTypedef spec then parseError "Invalid typedef" (locOfCoord dco) else
  let ds ← buildDeclarations spec [{ decl := decl }] true
  match ds with
  | d :: _ => pure (mk .FuncDef dco [d, paramDecls, body])
  | [] => crash .index "_build_declarations(...)[0]"

/-- `_parse_declaration` -/
def pDeclaration (self : Self) : P (List Val) := do
  let ds ← self .declBody
  let _ ← expect "SEMI"
  pure ds

def structDeclOnly (spec : DeclSpec) (t : Val) : P (List Val) := do
  let co ← valCoord t "ty[0].coord"
  pure [mk .Decl co [.none, .list spec.qual, .list spec.alignment, .list spec.storage,
    .list spec.function, t, .none, .none]]

/-- `_parse_decl_body_with_spec` -/
def pDeclBodyWithSpec (self : Self) (spec : DeclSpec) (sawType : Bool) : P (List Val) := do
  let infos : Option (List DeclInfo) ← (do
    if sawType then
      if ← startsDeclarator false then
        let d ← self (.initDeclarator false)
        pure (some (← self (.initDeclaratorListLoop [d] false)))
      else pure none
    else
      if ← startsDeclarator true then
        let d ← self (.initDeclarator true)
        pure (some (← self (.initDeclaratorListLoop [d] true)))
      else pure none)
  match infos with
  | none =>
    match spec.type with
    | [t] =>
      if isInstance t [.Struct, .Union, .Enum] then structDeclOnly spec t
      else buildDeclarations spec [{ decl := .none }] true
    | _ => buildDeclarations spec [{ decl := .none }] true
  | some infos => buildDeclarations spec infos true

def requireSpec (r : Option DeclSpec × Bool × Option Coord) (allowNoType : Bool) :
    P (DeclSpec × Bool × Option Coord) := do
  match r with
  | (none, _, _) => parseError "Invalid declaration" (← hereLoc)
  | (some spec, sawType, first) =>
    if !sawType && !allowNoType then parseError "Missing type in declaration" (locOfCoord first)
    else pure (spec, sawType, first)

/-- `_parse_declaration_specifiers(allow_no_type=True)` -/
def pDeclSpecs (self : Self) (allowNoType : Bool) : P (DeclSpec × Bool × Option Coord) := do
  requireSpec (← self (.declSpecsLoop none false none)) allowNoType

/-- `_parse_decl_body` -/
def pDeclBody (self : Self) : P (List Val) := do
  let (spec, sawType, _) ← pDeclSpecs self true
  pDeclBodyWithSpec self spec sawType

/-- `_parse_declaration_list` -/
def pDeclarationListLoop (self : Self) (acc : List Val) : P (List Val) := do
  if ← startsDeclaration then
    let ds ← self .declaration
    self (.declarationListLoop (acc ++ ds))
  else pure acc

def firstOr (first : Option Coord) (tok : PTok) : P (Option Coord) :=
  match first with
  | some c => pure (some c)
  | none => do pure (some (← tokCoord tok))

def identTypeOf (tok : PTok) : P Val := do
  pure (mk .IdentifierType (some (← tokCoord tok)) [Val.strs [tok.val]])

/-- the `while True` of `_parse_declaration_specifiers` -/
def pDeclSpecsLoop (self : Self) (spec : Option DeclSpec) (sawType : Bool) (first : Option Coord) :
    P (Option DeclSpec × Bool × Option Coord) := do
  match ← peek with
  | none => pure (spec, sawType, first)
  | some tok =>
    if tok.kind == "_ALIGNAS" then
      let first ← firstOr first tok
      let a ← self .alignmentSpecifier
      self (.declSpecsLoop (addSpec spec fun s => { s with alignment := s.alignment ++ [a] }) sawType first)
    else if ← andM (pure (tok.kind == "_ATOMIC")) (peek2Is "LPAREN") then
      let first ← firstOr first tok
      let a ← self .atomicSpecifier
      self (.declSpecsLoop (addSpec spec fun s => { s with type := s.type ++ [a] }) true first)
    else if typeQualifier.contains tok.kind then
      let first ← firstOr first tok
      let v := (← advance).val
      self (.declSpecsLoop (addSpec spec fun s => { s with qual := s.qual ++ [.str v] }) sawType first)
    else if storageClass.contains tok.kind then
      let first ← firstOr first tok
      let v := (← advance).val
      self (.declSpecsLoop (addSpec spec fun s => { s with storage := s.storage ++ [.str v] }) sawType first)
    else if functionSpec.contains tok.kind then
      let first ← firstOr first tok
      let v := (← advance).val
      self (.declSpecsLoop (addSpec spec fun s => { s with function := s.function ++ [.str v] }) sawType first)
    else if typeSpecSimple.contains tok.kind then
      let first ← firstOr first tok
      let t ← advance
      let it ← identTypeOf t
      self (.declSpecsLoop (addSpec spec fun s => { s with type := s.type ++ [it] }) true first)
    else if tok.kind == "TYPEID" then
      if sawType then pure (spec, sawType, first) else
      let first ← firstOr first tok
      let t ← advance
      let it ← identTypeOf t
      self (.declSpecsLoop (addSpec spec fun s => { s with type := s.type ++ [it] }) true first)
    else if tok.kind == "STRUCT" || tok.kind == "UNION" then
      let first ← firstOr first tok
      let su ← self .structOrUnionSpecifier
      self (.declSpecsLoop (addSpec spec fun s => { s with type := s.type ++ [su] }) true first)
    else if tok.kind == "ENUM" then
      let first ← firstOr first tok
      let en ← self .enumSpecifier
      self (.declSpecsLoop (addSpec spec fun s => { s with type := s.type ++ [en] }) true first)
    else pure (spec, sawType, first)

/-- the `while True` of `_parse_specifier_qualifier_list` -/
def pSqlLoop (self : Self) (spec : Option DeclSpec) (sawType sawAlign : Bool) (first : Option Coord) :
    P (Option DeclSpec × Bool × Bool × Option Coord) := do
  match ← peek with
  | none => pure (spec, sawType, sawAlign, first)
  | some tok =>
    if tok.kind == "_ALIGNAS" then
      let first ← firstOr first tok
      let a ← self .alignmentSpecifier
      self (.sqlLoop (addSpec spec fun s => { s with alignment := s.alignment ++ [a] }) sawType true first)
    else if ← andM (pure (tok.kind == "_ATOMIC")) (peek2Is "LPAREN") then
      let first ← firstOr first tok
      let a ← self .atomicSpecifier
      self (.sqlLoop (addSpec spec fun s => { s with type := s.type ++ [a] }) true sawAlign first)
    else if typeQualifier.contains tok.kind then
      let first ← firstOr first tok
      let v := (← advance).val
      self (.sqlLoop (addSpec spec fun s => { s with qual := s.qual ++ [.str v] }) sawType sawAlign first)
    else if typeSpecSimple.contains tok.kind then
      let first ← firstOr first tok
      let t ← advance
      let it ← identTypeOf t
      self (.sqlLoop (addSpec spec fun s => { s with type := s.type ++ [it] }) true sawAlign first)
    else if tok.kind == "TYPEID" then
      if sawType then pure (spec, sawType, sawAlign, first) else
      let first ← firstOr first tok
      let t ← advance
      let it ← identTypeOf t
      self (.sqlLoop (addSpec spec fun s => { s with type := s.type ++ [it] }) true sawAlign first)
    else if tok.kind == "STRUCT" || tok.kind == "UNION" then
      let first ← firstOr first tok
      let su ← self .structOrUnionSpecifier
      self (.sqlLoop (addSpec spec fun s => { s with type := s.type ++ [su] }) true sawAlign first)
    else if tok.kind == "ENUM" then
      let first ← firstOr first tok
      let en ← self .enumSpecifier
      self (.sqlLoop (addSpec spec fun s => { s with type := s.type ++ [en] }) true sawAlign first)
    else pure (spec, sawType, sawAlign, first)

/-- `_parse_specifier_qualifier_list` -/
def pSpecifierQualifierList (self : Self) : P DeclSpec := do
  match ← self (.sqlLoop none false false none) with
  | (none, _, _, _) => parseError "Invalid specifier list" (← hereLoc)
  | (some spec, sawType, _, first) =>
    if !sawType then parseError "Missing type in declaration" (locOfCoord first)
    else pure spec

/-- `_parse_type_qualifier_list` -/
def pTypeQualifierListLoop (self : Self) (acc : List Val) : P (List Val) := do
  if inSet (← peekType) typeQualifier then
    let v := (← advance).val
    self (.typeQualifierListLoop (acc ++ [.str v]))
  else pure acc

/-- `_parse_alignment_specifier` -/
def pAlignmentSpecifier (self : Self) : P Val := do
  let tok ← expect "_ALIGNAS"
  let _ ← expect "LPAREN"
  if ← startsDeclaration then
    let typ ← self .typeName
    let _ ← expect "RPAREN"
    pure (mk .Alignas (some (← tokCoord tok)) [typ])
  else
    let e ← self .conditionalExpression
    let _ ← expect "RPAREN"
    pure (mk .Alignas (some (← tokCoord tok)) [e])

/-- `_parse_atomic_specifier` -/
def pAtomicSpecifier (self : Self) : P Val := do
  let _ ← expect "_ATOMIC"
  let _ ← expect "LPAREN"
  let typ ← self .typeName
  let _ ← expect "RPAREN"
  match ← attrOrCrash (typ.getAttr "quals") "typ.quals" with
  | .list l => attrOrCrash (typ.setAttr "quals" (.list (l ++ [.str "_Atomic"]))) "typ.quals"
  | _ => crash .attribute "typ.quals.append"

/-- `_parse_init_declarator_list` tail -/
def pInitDeclaratorListLoop (self : Self) (acc : List DeclInfo) (idOnly : Bool) : P (List DeclInfo) := do
  match ← accept "COMMA" with
  | none => pure acc
  | some _ =>
    let d ← self (.initDeclarator idOnly)
    self (.initDeclaratorListLoop (acc ++ [d]) idOnly)

/-- `_parse_init_declarator` -/
def pInitDeclarator (self : Self) (idOnly : Bool) : P DeclInfo := do
  let decl ← if idOnly then self (.declaratorKind .id true)
    else do
      let (d, _) ← self (.anyDeclarator false false)
      if d.isNone then crash .assertion "_parse_declarator: decl is not None" else pure d
  if (← accept "EQUALS").isSome then
    let init ← self .initializer
    pure { decl := decl, init := init }
  else pure { decl := decl }

/-! ## struct / union / enum -/

/-- `_parse_struct_or_union_specifier` -/
def pStructOrUnionSpecifier (self : Self) : P Val := do
  let tok ← advance
  let klass : Cls := if tok.val == "struct" then .Struct else .Union
  if inSet (← peekType) ["ID", "TYPEID"] then
    let nameTok ← advance
    if (← peekType) == some "LBRACE" then
      let _ ← advance
      if (← accept "RBRACE").isSome then
        pure (mk klass (some (← tokCoord nameTok)) [.str nameTok.val, .list []])
      else
        let decls ← self (.structDeclListLoop [])
        let _ ← expect "RBRACE"
        pure (mk klass (some (← tokCoord nameTok)) [.str nameTok.val, .list decls])
    else
      pure (mk klass (some (← tokCoord nameTok)) [.str nameTok.val, .none])
  else if (← peekType) == some "LBRACE" then
    let braceTok ← advance
    if (← accept "RBRACE").isSome then
      pure (mk klass (some (← tokCoord braceTok)) [.none, .list []])
    else
      let decls ← self (.structDeclListLoop [])
      let _ ← expect "RBRACE"
      pure (mk klass (some (← tokCoord braceTok)) [.none, .list decls])
  else parseError "Invalid struct/union declaration" (.coord (← tokCoord tok))

/-- `_parse_struct_declaration_list` -/
def pStructDeclListLoop (self : Self) (acc : List Val) : P (List Val) := do
  let k ← peekType
  if k.isNone || k == some "RBRACE" then pure acc else
  match ← self .structDeclaration with
  | none => self (.structDeclListLoop acc)
  | some items => self (.structDeclListLoop (acc ++ items))

/-- `_parse_struct_declaration` -/
def pStructDeclaration (self : Self) : P (Option (List Val)) := do
  if (← peekType) == some "SEMI" then
    let _ ← advance
    pure none
  else if inSet (← peekType) ["PPPRAGMA", "_PRAGMA"] then
    pure (some [← self .pragmaDirective])
  else
    let spec ← pSpecifierQualifierList self
    if specHasTypedef spec then crash .assertion "typedef in struct declaration" else
    if ← orM (startsDeclarator false) (peekIs "COLON") then
      let d ← self .structDeclarator
      let decls ← self (.structDeclaratorListLoop [d])
      let _ ← expect "SEMI"
      pure (some (← buildDeclarations spec decls false))
    else
      match spec.type with
      | [node] =>
        -- `isinstance(node, c_ast.Node)` always holds for the entries the parser puts there
        let _ ← expect "SEMI"
        pure (some (← buildDeclarations spec [{ decl := node }] false))
      | _ =>
        let _ ← expect "SEMI"
        pure (some (← buildDeclarations spec [{ decl := .none }] false))

/-- `_parse_struct_declarator_list` tail -/
def pStructDeclaratorListLoop (self : Self) (acc : List DeclInfo) : P (List DeclInfo) := do
  match ← accept "COMMA" with
  | none => pure acc
  | some _ =>
    let d ← self .structDeclarator
    self (.structDeclaratorListLoop (acc ++ [d]))

/-- `_parse_struct_declarator` -/
def pStructDeclarator (self : Self) : P DeclInfo := do
  match ← accept "COLON" with
  | some colonTok =>
    let bitsize ← self .conditionalExpression
    -- an unnamed bit-field takes the coordinate of its colon (fix: it had none)
    pure { decl := mk .TypeDecl (some (← tokCoord colonTok)) [.none, .none, .none, .none], bitsize := bitsize }
  | none =>
    let (decl, _) ← self (.anyDeclarator false false)
    if decl.isNone then crash .assertion "_parse_declarator: decl is not None" else
    if (← accept "COLON").isSome then
      let bitsize ← self .conditionalExpression
      pure { decl := decl, bitsize := bitsize }
    else pure { decl := decl }

/-- `_parse_enum_specifier` -/
def pEnumSpecifier (self : Self) : P Val := do
  let tok ← expect "ENUM"
  let enumList : P Val := do
    let first ← self .enumerator
    let fco ← valCoord first "enum.coord"
    let l ← self (.enumeratorListLoop [first])
    pure (mk .EnumeratorList fco [.list l])
  if inSet (← peekType) ["ID", "TYPEID"] then
    let nameTok ← advance
    if (← peekType) == some "LBRACE" then
      let _ ← advance
      let enums ← enumList
      let _ ← expect "RBRACE"
      pure (mk .Enum (some (← tokCoord tok)) [.str nameTok.val, enums])
    else pure (mk .Enum (some (← tokCoord tok)) [.str nameTok.val, .none])
  else
    let _ ← expect "LBRACE"
    let enums ← enumList
    let _ ← expect "RBRACE"
    pure (mk .Enum (some (← tokCoord tok)) [.none, enums])

/-- `_parse_enumerator_list` tail -/
def pEnumeratorListLoop (self : Self) (acc : List Val) : P (List Val) := do
  match ← accept "COMMA" with
  | none => pure acc
  | some _ =>
    if (← peekType) == some "RBRACE" then pure acc else
    let e ← self .enumerator
    self (.enumeratorListLoop (acc ++ [e]))

/-- `_parse_enumerator` -/
def pEnumerator (self : Self) : P Val := do
  let nameTok ← expect "ID"
  let value ← if (← accept "EQUALS").isSome then self .conditionalExpression else pure Val.none
  let co ← tokCoord nameTok
  let en := mk .Enumerator (some co) [.str nameTok.val, value]
  addIdentifier nameTok.val (some co)
  pure en

end PycModel
