import PycModel.Properties.TablesPrec
import PycModel.Generator
/-!
# Table obligations of the generator model (used by C07 / C08 only)
-/
namespace PycModel.TablesG
open PycModel PycModel.Tables

theorem model_gen_precedence : sameMap precedenceMap Generated.genPrecedence = true := by decide
theorem model_gen_visit_methods :
    sameSet ((Cls.all.filter hasVisitMethod).map Cls.name) Generated.genVisitMethods = true := by decide

/-- the generator's precedence map agrees with the parser's on every operator -/
theorem impl_gen_prec_is_parser_prec :
    (Generated.binaryPrecedence.all fun (k, p) => Generated.genPrecedence.contains (spellingOf k, p)) = true ∧
    Generated.genPrecedence.length = Generated.binaryPrecedence.length := by decide


end PycModel.TablesG
