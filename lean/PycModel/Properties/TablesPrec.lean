import PycModel.Parser.NT
import PycModel.Spec.Tokens
import PycModel.Spec.Expr
import PycModel.Generated.ParserTables
/-!
# Table obligations about operator precedence (shared by the parser- and generator-level properties)

Kept apart from the FIRST-set obligations of `Tables.lean`, so that a property that depends only on
the precedence tables (C07, C08) is not disturbed by a change to the sets that decide how a
statement or a declaration starts.
-/
namespace PycModel.Tables
open PycModel

def sameSet (a b : List String) : Bool := Spec.sameSet a b
def sameMap (a b : List (String × Nat)) : Bool := a.all b.contains && b.all a.contains

theorem model_binary_precedence : sameMap binaryPrecedence Generated.binaryPrecedence = true := by decide
theorem model_assignment_ops : sameSet assignmentOps Generated.assignmentOps = true := by decide

def spellingOf (kind : String) : String :=
  ((Generated.opSpelling.find? (·.1 == kind)).map (·.2)).getD "?"

/-- the parser's binary precedence table is C99 6.5.5–6.5.14: same operators, same ten levels -/
theorem impl_prec_is_c99 :
    (Generated.binaryPrecedence.all fun (k, p) => Spec.binLevel (spellingOf k) == p &&
      Spec.binOps.contains (spellingOf k)) = true ∧
    Generated.binaryPrecedence.length = Spec.binOps.length := by decide

/-- assignment operators are C99 6.5.16's eleven -/
theorem impl_assign_ops_c99 :
    sameSet (Generated.assignmentOps.map spellingOf) Spec.assignOps = true := by decide

end PycModel.Tables
