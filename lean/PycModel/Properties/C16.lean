import PycModel.Proofs.StreamLemmas
import PycModel.Proofs.TuFuel
import PycModel.Proofs.LexerTotal
import PycModel.Proofs.StreamRel
import PycModel.Proofs.ParenExpr
import PycModel.Proofs.StmtSkel
import PycModel.Proofs.RegexCost
import PycModel.Generated.LexTables
/-!
# C16 — parsing work grows linearly, no backtracking blow-up

What the model can carry: the scanner consumes at least one character per loop iteration (so
at most `n` iterations on a text of length `n`: `lexStep_shrinks`), and the token stream never
lexes a token twice whatever speculation (`mark`/`reset`) the parser performs (`fill_inv`,
`reset_keeps_buffer`).  The parser-level tick count of the model is tied *exactly* (not
asymptotically) to the real `_TokenStream` call counts by the correspondence run, and growth is
then measured on both.  CPython's `re` engine cost and wall-clock time are outside any model.
-/
namespace PycModel.C16
open PycModel

variable {env : Env}

/-- scanner: every iteration of the main loop strictly shortens the unread text -/
theorem scanner_linear_iterations {cfg : LexCfg} (h : cfg.wf = true) (isType : String → Bool)
    (st : LexState) (hne : st.rest ≠ []) :
    (lexStep cfg isType st).2.rest.length < st.rest.length :=
  lexStep_shrinks h isType st hne

/-- token stream: each token is lexed exactly once (buffer grows by one per lexer call, the read
index is untouched by filling) -/
theorem each_token_lexed_once (fuel n : Nat) (s s' : PState) (hi : StreamInv s)
    (h : fill fuel n s = .ok () s') : s'.lexCalls = s'.buf.size ∧ s'.idx = s.idx :=
  let r := fill_inv fuel n s s' hi h
  ⟨r.1.calls, r.2.1⟩

/-- speculation is free of lexing cost -/
theorem speculation_never_relexes (m : Nat) (s s' : PState) (h : reset m s = .ok () s') :
    s'.lexCalls = s.lexCalls ∧ s'.buf = s.buf :=
  let r := reset_keeps_buffer m s s' h
  ⟨r.2.1, r.1⟩


/-- **whole parse, all inputs**: however much speculation (`mark`/`reset`, the declarator look-ahead,
the `( type-name )` trial parses) a successful parse performed, the lexer was called exactly once
per buffered token — `lexCalls = buffer size` in the final state — and the tokens it delivered are
exactly a prefix of the event stream (each event pulled at most once). -/
theorem whole_parse_lexes_each_token_once (fuel : Nat) (evs : List SEv) (v : Val) (sf : PState)
    (h : parseCore fuel evs = (.ast v, some sf)) : sf.lexCalls = sf.buf.size := by
  obtain ⟨_, _, _, _, _, hc⟩ := parse_ok_stream_shape fuel evs v sf h
  exact hc

/-- the same for every single production run from any well-formed state -/
theorem production_keeps_buffer_invariant (fuel : Nat) (nt : NT) (s : PState) (a : nt.Res) (s' : PState)
    (h : run fuel nt s = .ok a s') (g : Good s) : s'.lexCalls = s'.buf.size ∧ s.buf.size ≤ s'.buf.size :=
  ⟨((run_adv fuel nt s a s' h).good g).calls, (run_adv fuel nt s a s' h).bufMono⟩

/-! ## a parser-level linear bound, for the expression fragment proved correct -/
open PycModel.ParenExpr PycModel.View PycModel.OperandId PycModel.Climb in
/-- **Linear recursion budget.** For every expression of identifiers, parentheses and binary
operators - repetition (`a + a + ...`) as well as nesting (`((((a))))`, right-nested operators)
of any size - fuel `9 * (number of tokens)` suffices for the parser model to finish with the
right tree: fuel bounds the recursion depth plus the number of loop iterations on the deepest path
(every `self` call and every loop re-entry of the model consumes one unit). -/
theorem expression_fuel_linear (e : E) (m : Nat) (s : PState) (stop : Tk) (rest : List Tk)
    (hwf : WFE m e) (hstop1 : binPrec stop.1 = none) (hstop2 : stop.1 ∉ postfixStarters)
    (hs : SeesT env s (e.flat ++ stop :: rest)) :
    ∃ s', run (9 * e.ntoks) (.binaryExpression m none) s = .ok (e.val s.idx) s' :=
  let ⟨s', h, _⟩ := (parse_ok e).1 m s stop rest hwf hstop1 hstop2 hs (9 * e.ntoks) (fuel_linear e)
  ⟨s', h⟩

open PycModel.FullExpr PycModel.StmtSkel PycModel.View in
/-- **Linear recursion budget for statements and full expressions.** For every statement of the
fragment of `Proofs/StmtSkel.lean` - blocks of any length, `if`/`else`/`while`/`do`/`switch` nested to
any depth, expressions with every operator, call and subscript of `Proofs/FullExpr.lean` repeated and
nested to any size - nested to any size, declarations inside blocks and `for` clauses - fuel `17 * (number of tokens)`
suffices for the parser model to finish with the right tree. -/
theorem statement_fuel_linear (st : S) (hwf : WFS env.ty st) (s : PState) (rest : List Tk)
    (hs : SeesT env s (st.flat ++ rest))
    (hel : st.openIf = true → ∀ k v r, rest = (k, v) :: r → k ≠ "ELSE") :
    ∃ s', run (17 * st.ntoks) .statement s = .ok (st.val s.idx) s' :=
  let ⟨s', h, _⟩ := parse_stmt st hwf s rest hs hel (17 * st.ntoks) (by have := TuFuel.S.fuel_linear st hwf; omega)
  ⟨s', h⟩

open PycModel.Climb in
/-- the pure mirror of the two loops needs fuel at most twice the number of tree nodes -/
theorem precedence_climbing_fuel_linear (t : BT) (m : Nat) (h : WF binPrec m t) (k : List PT)
    (hk : StopAt binPrec m k) : climb binPrec (2 * t.size) m none (t.toks ++ k) = some (t, k) :=
  climb_correct binPrec t m h k hk _ (Nat.le_refl _)

/-- obligation on the regenerated lexer rules: no rule nests unbounded repetitions deeper than its
documented bound (the shape `(x+)*` on which a backtracking matcher goes exponential) -/
theorem impl_star_height :
    (Generated.lexCfg.rules.all fun r => decide (r.re.starHeight ≤ starBound r.name)) = true ∧
    Generated.decConst.starHeight ≤ 1 ∧ Generated.strLit.starHeight ≤ 1 ∧
    Generated.linePat.starHeight ≤ 1 ∧ Generated.pragmaPat.starHeight ≤ 1 := by decide

open PycModel.TransUnit PycModel.TuFuel in
/-- **A whole translation unit is parsed within a recursion budget linear in its size**: for every
translation unit of the fragment of `C01.wellformed_translation_units_are_accepted`, the parser
model run with fuel `17 × tokens + 1` (fuel bounds recursion depth plus loop iterations of every
production) returns the tree - no nesting and no repetition of declarations, parameters,
statements or expressions makes the needed depth grow faster than the input. -/
theorem translation_unit_fuel_linear (l : List Ext) (hw : ∀ e ∈ l, WFExt (fun _ => false) e) :
    (parseCore (17 * (extsFlat l).length + 1) ((extsFlat l).map (fun t => SEv.tok t.1 t.2) ++ [.eof])).1 =
      .ast (mk .FileAST none [.list (extsVals 0 l)]) := by
  rw [extsFlat_length]
  exact parse_translation_unit l hw _ (extsFuel_linear l hw)

end PycModel.C16
