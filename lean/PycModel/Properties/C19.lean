import PycModel.Cpp
import PycModel.Proofs.CppGuards
import PycModel.Generated.FakeHeaders
/-!
# C19 — every fake libc header preprocesses and parses via parse_file
-/
namespace PycModel.C19
open PycModel PycModel.Cpp

def fs : FS := Generated.fakeFS.map fun d => ⟨d.name, d.guard, d.includes, d.hasBody⟩

/-- obligation (shape of the regenerated header tree): every file that has content of its own is
guarded by a file-level include guard, guards are pairwise distinct, every include target exists,
includes come before content, no `#include <...>` or computed include occurs, and no macro of the
tree occurs as a word of a text line (so bodies do not depend on what was defined before) -/
theorem impl_shape :
    (Generated.fakeFS.all fun d =>
        (d.hasBody → d.guard.isSome) && d.includesFirst &&
        d.includes.all fun i => Generated.fakeFS.any (·.name == i)) = true ∧
    ((Generated.fakeFS.filterMap (·.guard)).Nodup) ∧
    Generated.macroWordsInText = [] ∧ Generated.oddIncludes = [] := by
  refine ⟨by decide +kernel, by decide +kernel, by decide, by decide⟩

/-- the five guarded bodies, by file -/
def D := "_fake_defines.h"
def T := "_fake_typedefs.h"
def XD := "X11/_X11_fake_defines.h"
def XT := "X11/_X11_fake_typedefs.h"
def Z := "zlib.h"

/-- obligation: what each single header expands to (exhaustive over the 129 files): the common
prefix `[defines, typedefs]`, followed by the X11 pair for the two X11 headers and by zlib's own
typedefs for zlib.h -/
theorem impl_single_headers :
    (Generated.fakeFS.all fun d =>
      let out := pp fs [d.name]
      out == [D, T] || out == [D] || out == [T] || out == [XD] || out == [XT] ||
      out == [D, T, XD, XT] || out == [D, T, Z]) = true := by
  decide +kernel


/-! ## all header lists, in any order -/

/-- obligation: in the regenerated tree every file with content is guarded -/
theorem impl_guarded_bodies : GuardedBodies fs := by
  have h : (fs.all fun fd => !fd.hasBody || fd.guard.isSome) = true := by decide +kernel
  intro fd hfd hb
  have := List.all_eq_true.mp h fd hfd
  simpa [hb] using this

/-- obligation: the files with content are exactly the five guarded bodies -/
theorem impl_bodies : (fs.filter (·.hasBody)).map (·.name) = [D, T, Z, XD, XT] := by decide +kernel

/-- **Reduction, every header list.** Whatever headers of the tree a file includes - any subset,
any order, any repetition - preprocessing emits a duplicate-free sequence of the five guarded
bodies (defines, typedefs, the X11 pair, zlib's typedefs): the infinitely many header lists
collapse to the finitely many arrangements of at most five bodies, which the check enumerates
on the real `cpp` and parser. -/
theorem any_header_list (hs : List String) :
    (pp fs hs).Nodup ∧ ∀ f ∈ pp fs hs, f ∈ [D, T, XD, XT, Z] := by
  obtain ⟨hn, hb⟩ := pp_nodup_bodies impl_guarded_bodies hs
  refine ⟨hn, ?_⟩
  intro f hf
  obtain ⟨fd, hfd, hname, hbody⟩ := hb f hf
  have : fd.name ∈ (fs.filter (·.hasBody)).map (·.name) :=
    List.mem_map.mpr ⟨fd, List.mem_filter.mpr ⟨hfd, hbody⟩, rfl⟩
  rw [impl_bodies, hname] at this
  simp only [List.mem_cons, List.mem_nil_iff, or_false] at this ⊢
  rcases this with h | h | h | h | h <;> simp [h]

/-- in particular at most five bodies are ever emitted -/
theorem any_header_list_length (hs : List String) : (pp fs hs).length ≤ 5 := by
  obtain ⟨hn, hm⟩ := any_header_list hs
  simpa using hn.length_le_of_subset hm

end PycModel.C19
