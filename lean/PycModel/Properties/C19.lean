import PycModel.Cpp
import PycModel.Generated.FakeHeaders
/-!
# C19 — every fake libc header preprocesses and parses via parse_file
-/
namespace PycModel.C19
open PycModel PycModel.Cpp

def fs : FS := Generated.fakeFS.map fun d => ⟨d.name, d.guard, d.includes, d.hasBody⟩

/-- obligation (shape of the regenerated header tree): every file that has content of its own is
guarded by a file-level include guard, guards are pairwise distinct, every include target exists,
includes come before content, no `#include <...>` or computed include occurs, and no macro of the
tree occurs as a word of a text line (so bodies do not depend on what was defined before) -/
theorem impl_shape :
    (Generated.fakeFS.all fun d =>
        (d.hasBody → d.guard.isSome) && d.includesFirst &&
        d.includes.all fun i => Generated.fakeFS.any (·.name == i)) = true ∧
    ((Generated.fakeFS.filterMap (·.guard)).Nodup) ∧
    Generated.macroWordsInText = [] ∧ Generated.oddIncludes = [] := by
  refine ⟨by decide +kernel, by decide +kernel, by decide, by decide⟩

/-- the five guarded bodies, by file -/
def D := "_fake_defines.h"
def T := "_fake_typedefs.h"
def XD := "X11/_X11_fake_defines.h"
def XT := "X11/_X11_fake_typedefs.h"
def Z := "zlib.h"

/-- obligation: what each single header expands to (exhaustive over the 129 files): the common
prefix `[defines, typedefs]`, followed by the X11 pair for the two X11 headers and by zlib's own
typedefs for zlib.h -/
theorem impl_single_headers :
    (Generated.fakeFS.all fun d =>
      let out := pp fs [d.name]
      out == [D, T] || out == [D] || out == [T] || out == [XD] || out == [XT] ||
      out == [D, T, XD, XT] || out == [D, T, Z]) = true := by
  decide +kernel

end PycModel.C19
