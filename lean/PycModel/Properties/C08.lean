import PycModel.Parser.Stmt
import PycModel.Properties.TablesPrec
import PycModel.Properties.TablesGen
import PycModel.Properties.C17
/-!
# C08 — regenerated C means the same as the original to a C compiler

A compiler's code generation cannot be modelled here; see DESIGN.md §6 C08.  What can be
machine-checked: the precedence obligations (`Tables`), and that the AST encoding loses
information the compiler cares about — a *proved* counter-example to the property.
-/
namespace PycModel.C08
open PycModel

def toks (l : List (String × String)) : List SEv := l.map (fun p => SEv.tok p.1 p.2) ++ [.eof]

/-- `int a [ 2 ] = { [ N ] = 1 } ;` -/
def indexDesignator : List SEv := toks
  [("INT","int"),("ID","a"),("LBRACKET","["),("INT_CONST_DEC","2"),("RBRACKET","]"),("EQUALS","="),("LBRACE","{"),
   ("LBRACKET","["),("ID","N"),("RBRACKET","]"),("EQUALS","="),("INT_CONST_DEC","1"),("RBRACE","}"),("SEMI",";")]

/-- `int a [ 2 ] = { . N = 1 } ;` -/
def memberDesignator : List SEv := toks
  [("INT","int"),("ID","a"),("LBRACKET","["),("INT_CONST_DEC","2"),("RBRACKET","]"),("EQUALS","="),("LBRACE","{"),
   ("PERIOD","."),("ID","N"),("EQUALS","="),("INT_CONST_DEC","1"),("RBRACE","}"),("SEMI",";")]

mutual
/-- structural equality of trees, coordinates ignored -/
def veq : Val → Val → Bool
  | .none, .none => true
  | .str a, .str b => a == b
  | .list a, .list b => veqL a b
  | .node c _ a, .node d _ b => c == d && veqL a b
  | _, _ => false
def veqL : List Val → List Val → Bool
  | [], [] => true
  | a :: r, b :: s => veq a b && veqL r s
  | _, _ => false
end

/-- both token sequences are accepted and give equal trees (coordinates aside) -/
def sameAst (a b : List SEv) : Bool :=
  match (parseCore 200 a).1, (parseCore 200 b).1 with
  | .ast v, .ast w => veq v w
  | _, _ => false

/-- **the property is false of the current tree**: an array designator whose index is an
identifier and a member designator of the same spelling are two different token sequences (with
different meaning to a compiler) that produce the *same* AST, so no generator can regenerate
both faithfully.  (Known finding F-designator-id-index; the witness is replayed on the real code.) -/
theorem designator_encoding_not_injective :
    indexDesignator ≠ memberDesignator ∧ sameAst indexDesignator memberDesignator = true := by
  refine ⟨by decide, by decide +kernel⟩

end PycModel.C08
