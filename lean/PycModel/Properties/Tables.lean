import PycModel.Parser.NT
import PycModel.Spec.Tokens
import PycModel.Spec.Expr
import PycModel.Generated.ParserTables
import PycModel.Properties.TablesPrec
/-!
# Table obligations shared by the parser-level properties

The hand-written parser/generator model uses its own copies of the module-level tables of
`c_parser.py` / `c_generator.py`.  These obligations are re-checked by the kernel on every run
against the tables regenerated from the source, so the theorems about the model speak about the
tables the code has *now*.
-/
namespace PycModel.Tables
open PycModel

theorem model_storage_class : sameSet storageClass Generated.storageClass = true := by decide
theorem model_function_spec : sameSet functionSpec Generated.functionSpec = true := by decide
theorem model_type_qualifier : sameSet typeQualifier Generated.typeQualifier = true := by decide
theorem model_type_spec_simple : sameSet typeSpecSimple Generated.typeSpecSimple = true := by decide
theorem model_decl_start : sameSet declStart Generated.declStart = true := by decide
theorem model_int_const : sameSet intConst Generated.intConst = true := by decide
theorem model_float_const : sameSet floatConst Generated.floatConst = true := by decide
theorem model_char_const : sameSet charConst Generated.charConst = true := by decide
theorem model_string_literal : sameSet stringLiteral Generated.stringLiteral = true := by decide
theorem model_wstr_literal : sameSet wstrLiteral Generated.wstrLiteral = true := by decide
theorem model_starts_expression : sameSet startsExpressionSet Generated.startsExpression = true := by decide
theorem model_starts_statement : sameSet startsStatementSet Generated.startsStatement = true := by decide

end PycModel.Tables
