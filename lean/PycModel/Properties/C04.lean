import PycModel.Spec.Scoping
import PycModel.Parser.Core
import PycModel.Proofs.TransUnit
/-!
# C04 — an identifier is a type name exactly where C scoping makes it one

Refinement of the parser model's scope stack (`Parser/Core.lean`: association lists updated by
`scopeSet`, searched by `isTypeInScopes`) to the specification's scope map (`Spec/Scoping.lean`).
The full property (for every history, classification = `Spec.isType`) is proved for the scope-stack
operations; *when* the parser performs them (registration only once a whole declaration is
complete, `for`-init and prototype scopes, enumerators and labels spelled like a typedef name) is
where the known findings of this property live.
-/
namespace PycModel.C04
open PycModel

theorem lookup_set_same (sc : Scope) (n : String) (b : Bool) : scopeLookup (scopeSet sc n b) n = some b := by
  simp [scopeLookup, scopeSet]

theorem lookup_set_other (sc : Scope) (n m : String) (b : Bool) (h : m ≠ n) :
    scopeLookup (scopeSet sc n b) m = scopeLookup sc m := by
  have h1 : ((n == m) = false) := by simpa using fun e => h e.symm
  simp only [scopeLookup, scopeSet, List.find?_cons, h1]
  congr 1
  induction sc with
  | nil => rfl
  | cons p r ih =>
    by_cases hp : p.1 = n
    · have : (p.1 == m) = false := by rw [hp]; exact h1
      simp [List.filter_cons, hp, List.find?_cons, h1, ih]
    · simp only [List.filter_cons, bne_iff_ne, ne_eq, hp, not_false_eq_true, decide_true, ↓reduceIte,
        List.find?_cons]
      split <;> simp_all

/-- declaring `n` in the innermost scope makes it (not) a type name from then on -/
theorem declared_innermost_decides (sc : Scope) (rest : List Scope) (n : String) (b : Bool) :
    isTypeInScopes (scopeSet sc n b :: rest) n = b := by
  simp [isTypeInScopes, lookup_set_same]

/-- … and changes nothing for any other name -/
theorem declared_innermost_other (sc : Scope) (rest : List Scope) (n m : String) (b : Bool) (h : m ≠ n) :
    isTypeInScopes (scopeSet sc n b :: rest) m = isTypeInScopes (sc :: rest) m := by
  simp [isTypeInScopes, lookup_set_other sc n m b h]

/-- a freshly opened block changes no classification -/
theorem open_block_transparent (st : List Scope) (n : String) :
    isTypeInScopes ([] :: st) n = isTypeInScopes st n := by
  simp [isTypeInScopes, scopeLookup]

/-- an inner declaration hides an outer one until its block is closed, and the outer one is
visible again afterwards, whatever was declared inside -/
theorem inner_hides_outer_until_close (inner : Scope) (outer : List Scope) (n : String) (b : Bool) :
    isTypeInScopes (scopeSet inner n b :: outer) n = b ∧
    isTypeInScopes ((scopeSet inner n b :: outer).drop 1) n = isTypeInScopes outer n := by
  exact ⟨declared_innermost_decides inner outer n b, by simp⟩

/-- the model's lookup is the specification's lookup (same association-list reading) -/
theorem lookup_refines_spec (st : List Scope) (n : String) :
    isTypeInScopes st n = Spec.lookupS st n := by
  induction st with
  | nil => rfl
  | cons sc r ih =>
    simp only [isTypeInScopes, Spec.lookupS, scopeLookup]
    cases h : sc.find? (fun x => x.1 == n) <;> simp [ih]

/-! ## at the level of the parser: `T * x ;` is a declaration exactly when `T` names a type

The scope stack of a parser state that `SeesT env` describes the static typedef environment `env.ty`
(`View.Agrees`): `_is_type_in_scope` computes `env.ty` (`View.Agrees.lookup`), lexing braces keeps
it (`View.Agrees.lex`), and the lexer callback hands the parser `TYPEID` for an identifier exactly
when `env.ty` says so (`classification`).  The two theorems below run the *same spelling*
`T * x ;` through `_parse_block_item_list` in the two environments. -/

open PycModel.View in
/-- the class the parser sees for an identifier token is decided by the typedef environment alone -/
theorem classification (ty : String → Bool) (n : String) :
    clsF ty ("ID", n) = (if ty n then "TYPEID" else "ID", n) := by
  simp [clsF]

open PycModel.View PycModel.FullExpr PycModel.DeclSkel PycModel.DeclParse PycModel.BuildDecl PycModel.StmtSkel PycModel.TransUnit
  PycModel.TypeModify

/-- **`T * x ;` with `T` a typedef name is a declaration** of `x` as pointer to `T`: the block-item
loop of the parser, run on the five tokens, returns one `Decl` -/
theorem typedef_name_makes_a_declaration {env : Env} (T x : String) (hx : env.ty x = false) (s : PState) (rest : List Tk)
    (hs : SeesT env s ([("TYPEID", T), ("TIMES", "*"), ("ID", x), ("SEMI", ";")] ++ ("RBRACE", "}") :: rest)) :
    ∃ s', run 60 (.blockItemListLoop []) s =
        .ok [mk .Decl (tc (s.idx + 1)) [.str x, .list [], .list [], .list [], .list [],
               mk .PtrDecl (tc (s.idx + 1)) [.list [],
                 mk .TypeDecl (tc (s.idx + 2)) [.str x, .list [], .none, mk .IdentifierType (tc s.idx) [.list [.str T]]]],
               .none, .none]] s' ∧
      SeesT env s' (("RBRACE", "}") :: rest) := by
  let dc : Dcl := { specs := [("TYPEID", T)], first := { d := .ptr [[]] (.name x), init := none }, more := [] }
  have hwd : WFDcl dc := by
    refine ⟨by simp [dc, SpecToks], ?_, by simp [dc, sawAfter, isTypeTok], ⟨.ptr _ _ (by simp) (by simp) (.name _) rfl, by intro e h; cases h⟩, by intro it h; cases h⟩
    intro t ht; simp only [dc, List.mem_singleton] at ht; subst ht
    exact ⟨by simp [storageClass], by simp [typeQualifier]⟩
  have hwf : WFSL env.ty (.consD dc .nil) :=
    .consD _ _ hwd (by intro y hy; simp [Dcl.names, dc, dName] at hy; subst hy; exact hx) .nil
  have hv : [] ++ SL.vals s.idx (.consD dc .nil) =
      [mk .Decl (tc (s.idx + 1)) [.str x, .list [], .list [], .list [], .list [],
               mk .PtrDecl (tc (s.idx + 1)) [.list [],
                 mk .TypeDecl (tc (s.idx + 2)) [.str x, .list [], .none, mk .IdentifierType (tc s.idx) [.list [.str T]]]],
               .none, .none]] := rfl
  have hf : (SL.consD dc .nil).fuel ≤ 60 := Nat.le_of_ble_eq_true rfl
  obtain ⟨s', hr, hs', _⟩ := all_sl (.consD dc .nil) [] s rest 60 hwf
    (by simpa [SL.flat, Dcl.flat, Dcl.body, dc, IDc.flat, DeclSkel.D.flat, starsFlat, restFlat] using hs)
    hf
  exact ⟨s', hv ▸ hr, hs'⟩

/-- **the same spelling with `T` an ordinary identifier is an expression statement**: the product
of `T` and `x` -/
theorem ordinary_name_makes_an_expression {env : Env} (T x : String) (s : PState) (rest : List Tk)
    (hs : SeesT env s ([("ID", T), ("TIMES", "*"), ("ID", x), ("SEMI", ";")] ++ ("RBRACE", "}") :: rest)) :
    ∃ s', run 60 (.blockItemListLoop []) s =
        .ok [mk .BinaryOp (tc s.idx) [.str "*", mk .ID (tc s.idx) [.str T], mk .ID (tc (s.idx + 2)) [.str x]]] s' ∧
      SeesT env s' (("RBRACE", "}") :: rest) := by
  let st : S := .expr (.bin "TIMES" "*" (.id T) (.id x))
  have hwf : WFSL env.ty (.cons st .nil) :=
    .cons _ _ (.expr _ (.bin 0 9 _ _ _ _ (by decide) (by decide) (.id _ _) (.id _ _))) .nil
  obtain ⟨s', hr, hs', _⟩ := all_sl (.cons st .nil) [] s rest 60 hwf
    (by exact hs)
    (Nat.le_of_ble_eq_true rfl)
  exact ⟨s', hr, hs'⟩

open PycModel.TypeName in
/-- **`( T ) ( x )` with `T` a typedef name is a cast** of the parenthesised `x` to the type `T` -/
theorem typedef_name_makes_a_cast {env : Env} (T x : String) (s : PState) (rest : List Tk)
    (hs : SeesT env s ([("LPAREN", "("), ("TYPEID", T), ("RPAREN", ")"), ("LPAREN", "("), ("ID", x), ("RPAREN", ")")] ++
      ("SEMI", ";") :: rest)) :
    ∃ s', run 100 .expression s =
        .ok (mk .Cast (tc s.idx) [
          mk .Typename (tc (s.idx + 1)) [.none, .list [], .none,
            mk .TypeDecl none [.none, .list [], .none, mk .IdentifierType (tc (s.idx + 1)) [.list [.str T]]]],
          mk .ID (tc (s.idx + 4)) [.str x]]) s' ∧
      SeesT env s' (("SEMI", ";") :: rest) := by
  let tn : TN := { specs := [("TYPEID", T)], stars := [] }
  let e : X := .cast tn (.paren (.id x))
  have hwt : WFTN tn := ⟨by simp [tn, SqToks], rfl, by intro q h; cases h⟩
  have hwf : WFX 0 e := .cast _ _ _ (by omega) hwt (.paren _ _ (.id _ _))
  have hstop : StopX ("SEMI", ";").1 := ⟨⟨⟨⟨by decide, by decide⟩, by decide⟩, by decide⟩, by decide⟩
  obtain ⟨s', hr, hs', _⟩ := parse_full e hwf s ("SEMI", ";") rest hstop hs 100 (Nat.le_of_ble_eq_true rfl)
  exact ⟨s', hr, hs'⟩

/-- **the same spelling with `T` an ordinary identifier is a call** of `T` with the argument `x` -/
theorem ordinary_name_makes_a_call {env : Env} (T x : String) (s : PState) (rest : List Tk)
    (hs : SeesT env s ([("LPAREN", "("), ("ID", T), ("RPAREN", ")"), ("LPAREN", "("), ("ID", x), ("RPAREN", ")")] ++
      ("SEMI", ";") :: rest)) :
    ∃ s', run 100 .expression s =
        .ok (mk .FuncCall (tc (s.idx + 1)) [mk .ID (tc (s.idx + 1)) [.str T],
          mk .ExprList (tc (s.idx + 4)) [.list [mk .ID (tc (s.idx + 4)) [.str x]]]]) s' ∧
      SeesT env s' (("SEMI", ";") :: rest) := by
  let e : X := .call (.paren (.id T)) (.id x)
  have hwf : WFX 0 e := .call _ _ _ (by omega) (.paren _ _ (.id _ _)) (.id _ _)
  have hstop : StopX ("SEMI", ";").1 := ⟨⟨⟨⟨by decide, by decide⟩, by decide⟩, by decide⟩, by decide⟩
  obtain ⟨s', hr, hs', _⟩ := parse_full e hwf s ("SEMI", ";") rest hstop hs 100 (Nat.le_of_ble_eq_true rfl)
  exact ⟨s', hr, hs'⟩

end PycModel.C04
