import PycModel.Spec.Scoping
import PycModel.Parser.Core
/-!
# C04 — an identifier is a type name exactly where C scoping makes it one

Refinement of the parser model's scope stack (`Parser/Core.lean`: association lists updated by
`scopeSet`, searched by `isTypeInScopes`) to the specification's scope map (`Spec/Scoping.lean`).
The full property (for every history, classification = `Spec.isType`) is proved for the scope-stack
operations; *when* the parser performs them (registration only once a whole declaration is
complete, `for`-init and prototype scopes, enumerators and labels spelled like a typedef name) is
where the known findings of this property live.
-/
namespace PycModel.C04
open PycModel

theorem lookup_set_same (sc : Scope) (n : String) (b : Bool) : scopeLookup (scopeSet sc n b) n = some b := by
  simp [scopeLookup, scopeSet]

theorem lookup_set_other (sc : Scope) (n m : String) (b : Bool) (h : m ≠ n) :
    scopeLookup (scopeSet sc n b) m = scopeLookup sc m := by
  have h1 : ((n == m) = false) := by simpa using fun e => h e.symm
  simp only [scopeLookup, scopeSet, List.find?_cons, h1]
  congr 1
  induction sc with
  | nil => rfl
  | cons p r ih =>
    by_cases hp : p.1 = n
    · have : (p.1 == m) = false := by rw [hp]; exact h1
      simp [List.filter_cons, hp, List.find?_cons, h1, ih]
    · simp only [List.filter_cons, bne_iff_ne, ne_eq, hp, not_false_eq_true, decide_true, ↓reduceIte,
        List.find?_cons]
      split <;> simp_all

/-- declaring `n` in the innermost scope makes it (not) a type name from then on -/
theorem declared_innermost_decides (sc : Scope) (rest : List Scope) (n : String) (b : Bool) :
    isTypeInScopes (scopeSet sc n b :: rest) n = b := by
  simp [isTypeInScopes, lookup_set_same]

/-- … and changes nothing for any other name -/
theorem declared_innermost_other (sc : Scope) (rest : List Scope) (n m : String) (b : Bool) (h : m ≠ n) :
    isTypeInScopes (scopeSet sc n b :: rest) m = isTypeInScopes (sc :: rest) m := by
  simp [isTypeInScopes, lookup_set_other sc n m b h]

/-- a freshly opened block changes no classification -/
theorem open_block_transparent (st : List Scope) (n : String) :
    isTypeInScopes ([] :: st) n = isTypeInScopes st n := by
  simp [isTypeInScopes, scopeLookup]

/-- an inner declaration hides an outer one until its block is closed, and the outer one is
visible again afterwards, whatever was declared inside -/
theorem inner_hides_outer_until_close (inner : Scope) (outer : List Scope) (n : String) (b : Bool) :
    isTypeInScopes (scopeSet inner n b :: outer) n = b ∧
    isTypeInScopes ((scopeSet inner n b :: outer).drop 1) n = isTypeInScopes outer n := by
  exact ⟨declared_innermost_decides inner outer n b, by simp⟩

/-- the model's lookup is the specification's lookup (same association-list reading) -/
theorem lookup_refines_spec (st : List Scope) (n : String) :
    isTypeInScopes st n = Spec.lookupS st n := by
  induction st with
  | nil => rfl
  | cons sc r ih =>
    simp only [isTypeInScopes, Spec.lookupS, scopeLookup]
    cases h : sc.find? (fun x => x.1 == n) <;> simp [ih]

end PycModel.C04
