import PycModel.Reflect
import PycModel.Generated.Classes
/-!
# C14 — node classes and tree traversal conform to the declarative AST specification
-/
namespace PycModel.C14
open PycModel

def fkOf : Generated.FK → FieldKind
  | .attr => .attr | .child => .child | .seq => .seq

def sameFields (a : List (String × Generated.FK)) (b : List (String × FieldKind)) : Bool :=
  a.map (fun f => (f.1, fkOf f.2)) == b

/-- obligation: the 49 live classes — constructor signature, `__slots__`, `attr_names` and the
kind of every field as *observed* with sentinel values — are exactly the model's class table -/
theorem impl_classes :
    (Generated.liveClasses.map (·.1)) = Cls.all.map Cls.name ∧
    (Generated.liveClasses.all fun (n, fs, ok, attrs) =>
      ok && (Cls.all.any fun c => c.name == n && sameFields fs c.fields && attrs == c.attrNames)) = true := by
  decide +kernel

/-- obligation: `_c_ast.cfg` (as parsed by `_ast_gen.py`) is the same table -/
theorem impl_cfg :
    (Generated.cfgClasses.map (·.1)) = Cls.all.map Cls.name ∧
    (Generated.cfgClasses.all fun (n, fs) => Cls.all.any fun c => c.name == n && sameFields fs c.fields) = true := by
  decide +kernel

/-- obligation: `_ast_gen.py` applied to the cfg reproduces the checked-in classes -/
theorem impl_astgen : Generated.astGenReproducesCheckedIn = true := by decide

/-- a sentinel instance: attributes set, the listed node-valued fields present -/
def sentinelFields (c : Cls) (present : List Bool) : List Val :=
  let rec go : List (String × FieldKind) → List Bool → List Val
    | [], _ => []
    | (_, .attr) :: r, ps => .str "A" :: go r ps
    | (n, .child) :: r, p :: ps => (if p then .node .ID none [.str n] else .none) :: go r ps
    | (n, .seq) :: r, p :: ps =>
      (if p then .list [.node .ID none [.str (n ++ "0")], .node .ID none [.str (n ++ "1")]] else .none) :: go r ps
    | (_, _) :: r, [] => .none :: go r []
  go c.fields present

/-- obligation: for every class and **every subset** of absent node-valued fields the real
`children()` returned exactly the names the generic `childrenOf` computes, and iteration agreed
with `children()` (49 classes, every subset, exhaustive) -/
theorem impl_children :
    (Generated.childrenObs.all fun (n, present, names, iterOk) =>
      iterOk && (Cls.all.any fun c => c.name == n &&
        (childrenOf c (sentinelFields c present)).map (·.1) == names)) = true := by
  decide +kernel

/-! ## universal statements about the generic traversal (all trees) -/

theorem iter_eq_children (v : Val) : v.iter = v.children.map (·.2) := rfl

theorem sum_map_length {α} (l : List α) (f : α → List Cls) :
    (l.flatMap f).length = (l.map fun a => (f a).length).sum := by
  induction l with
  | nil => simp
  | cons a r ih => simp [ih]

/-- generic traversal reaches every node exactly once: on a tree of nodes the visit trace has
exactly as many entries as there are reachable nodes -/
theorem visit_once : ∀ (fuel : Nat) (v : Val), allNodes fuel v = true →
    (visitTrace fuel v).length = reach fuel v := by
  intro fuel
  induction fuel with
  | zero => intro v _; simp [visitTrace, reach]
  | succ f ih =>
    intro v h
    simp only [allNodes, Bool.and_eq_true, List.all_eq_true] at h
    obtain ⟨hn, hc⟩ := h
    cases v with
    | node c co fs =>
      simp only [visitTrace, reach, List.length_cons]
      rw [sum_map_length]
      have : (List.map (fun a => (visitTrace f a.2).length) (Val.node c co fs).children) =
          (List.map (fun a => reach f a.2) (Val.node c co fs).children) := by
        apply List.map_congr_left
        intro a ha
        exact ih a.2 (hc a ha)
      rw [this]; omega
    | none => simp [Val.isNode] at hn
    | str s => simp [Val.isNode] at hn
    | list l => simp [Val.isNode] at hn

theorem sum_map_length' {α} (l : List α) (f : α → List String) :
    (l.flatMap f).length = (l.map fun a => (f a).length).sum := by
  induction l with
  | nil => simp
  | cons a r ih => simp [ih]

/-- `show()` prints exactly one line per reachable node -/
theorem show_one_line_per_node : ∀ (fuel off : Nat) (v : Val), allNodes fuel v = true →
    (showLines fuel off v).length = reach fuel v := by
  intro fuel
  induction fuel with
  | zero => intro off v _; simp [showLines, reach]
  | succ f ih =>
    intro off v h
    simp only [allNodes, Bool.and_eq_true, List.all_eq_true] at h
    obtain ⟨hn, hc⟩ := h
    cases v with
    | node c co fs =>
      simp only [showLines, reach, List.length_cons]
      rw [sum_map_length']
      have : (List.map (fun a => (showLines f (off + 2) a.2).length) (Val.node c co fs).children) =
          (List.map (fun a => reach f a.2) (Val.node c co fs).children) := by
        apply List.map_congr_left
        intro a ha
        exact ih (off + 2) a.2 (hc a ha)
      rw [this]; omega
    | none => simp [Val.isNode] at hn
    | str s => simp [Val.isNode] at hn
    | list l => simp [Val.isNode] at hn

/-- a `visit_X` method intercepts only nodes of class X -/
theorem visitWith_intercepts_only (xs : List Cls) : ∀ (fuel : Nat) (v w : Val),
    w ∈ (visitWith xs fuel v).1 → ∃ c, w.cls? = some c ∧ c ∈ xs := by
  intro fuel
  induction fuel with
  | zero => intro v w h; simp [visitWith] at h
  | succ f ih =>
    intro v w h
    cases v with
    | node c co fs =>
      simp only [visitWith] at h
      split at h
      · rename_i hc
        simp only [List.mem_singleton] at h
        subst h
        exact ⟨c, rfl, by simpa using hc⟩
      · simp only [List.mem_flatMap, List.mem_map] at h
        obtain ⟨r, ⟨ch, _, rfl⟩, hw⟩ := h
        exact ih ch.2 w hw
    | none => simp [visitWith] at h
    | str s => simp [visitWith] at h
    | list l => simp [visitWith] at h

/-- … and `generic_visit` never sees a node of an overridden class -/
theorem visitWith_generic_never_X (xs : List Cls) : ∀ (fuel : Nat) (v w : Val),
    w ∈ (visitWith xs fuel v).2 → ∃ c, w.cls? = some c ∧ c ∉ xs := by
  intro fuel
  induction fuel with
  | zero => intro v w h; simp [visitWith] at h
  | succ f ih =>
    intro v w h
    cases v with
    | node c co fs =>
      simp only [visitWith] at h
      split at h
      · simp at h
      · rename_i hc
        simp only [List.mem_cons, List.mem_flatMap, List.mem_map] at h
        rcases h with h | ⟨r, ⟨ch, _, rfl⟩, hw⟩
        · subst h; exact ⟨c, rfl, by simpa using hc⟩
        · exact ih ch.2 w hw
    | none => simp [visitWith] at h
    | str s => simp [visitWith] at h
    | list l => simp [visitWith] at h

end PycModel.C14
