import PycModel.Spec.Lexical
import PycModel.Parser.Expr
import PycModel.Properties.C09
/-!
# C10 — literals are accepted iff well-formed and classified by their spelling

Specification: `Spec/Lexical.lean` (C99 6.4.4 / 6.4.5 recognisers + the documented extensions).
-/
namespace PycModel.C10
open PycModel PycModel.Spec.Lex

/-- type string `_parse_constant` builds for an integer constant (the model's computation) -/
def modelIntType (spelling : String) : String :=
  let (u, l) := countSuffix spelling
  repeatStr "unsigned " u ++ repeatStr "long " l ++ "int"

theorem countP_take_append (p : Char → Bool) (a b : List Char) (hb : ∀ c ∈ b, p c = false)
    (ha : a.length ≤ 3) : ((a ++ b).take 3).countP p = a.countP p := by
  rw [List.take_append]
  rw [List.take_of_length_le ha, List.countP_append]
  have : (b.take (3 - a.length)).countP p = 0 := by
    rw [List.countP_eq_zero]
    intro c hc
    simp [hb c (List.mem_of_mem_take hc)]
  omega

/-- **suffix typing, all spellings**: for every digit sequence (containing none of `u U l L` —
true of decimal, octal, binary and hexadecimal digits and of the `0x`/`0b` prefixes) followed by
any of the 23 C99 integer suffixes, the type attached to the Constant is the one the suffix
implies: `unsigned` iff a `u`/`U` is present, `long` once per `l`/`L`. -/
theorem int_suffix_type (body : List Char) (suf : String)
    (hbody : ∀ c ∈ body, c ≠ 'u' ∧ c ≠ 'U' ∧ c ≠ 'l' ∧ c ≠ 'L')
    (hsuf : suf ∈ intSuffixes) :
    modelIntType (String.ofList (body ++ suf.toList)) = intSuffixType suf := by
  have hu : ∀ c ∈ body.reverse, (c == 'u' || c == 'U') = false := by
    intro c hc; have := hbody c (by simpa using hc); simp [this.1, this.2.1]
  have hl : ∀ c ∈ body.reverse, (c == 'l' || c == 'L') = false := by
    intro c hc; have := hbody c (by simpa using hc); simp [this.2.2.1, this.2.2.2]
  simp only [intSuffixes, List.mem_cons, List.not_mem_nil, or_false] at hsuf
  simp only [modelIntType, countSuffix, String.toList_ofList, List.reverse_append]
  rcases hsuf with h | h | h | h | h | h | h | h | h | h | h | h | h | h | h | h | h | h | h | h | h | h | h <;>
    subst h <;>
    (rw [countP_take_append _ _ _ hu (by decide), countP_take_append _ _ _ hl (by decide)]; decide)

/-- spec sanity: every suffix of the standard's list gets a type with at most one `unsigned` and
at most two `long` -/
theorem suffix_types_wellformed :
    (intSuffixes.all fun s => ["int", "unsigned int", "long int", "unsigned long int", "long long int",
      "unsigned long long int"].contains (intSuffixType s)) = true := by decide

end PycModel.C10
