import PycModel.Spec.Stmt
import PycModel.Properties.Tables
/-!
# C05 — statement ASTs mirror C's statement nesting and source order

Specification: `Spec/Stmt.lean` (`Stmt`, `renderS`, `Stmt.toVal`, `regroup`).
-/
namespace PycModel.C05
open PycModel PycModel.Spec

theorem peel_nonlabel (fuel : Nat) (v : Val) (h : isLabelV v = false) :
    peelLabelsV fuel v = ([], [v]) := by
  cases fuel <;> simp [peelLabelsV, h]

theorem regroupGo_no_labels (items done : List Val) (h : ∀ v ∈ items, isLabelV v = false) :
    regroupGo items done none = done ++ items := by
  induction items generalizing done with
  | nil => simp [regroupGo]
  | cons v r ih =>
    have hv := h v (by simp)
    simp only [regroupGo, peel_nonlabel _ v hv]
    rw [ih _ (fun w hw => h w (by simp [hw]))]
    simp

/-- a switch block without case/default labels is left exactly as written -/
theorem regroup_no_labels (items : List Val) (h : ∀ v ∈ items, isLabelV v = false) :
    regroup items = items := by
  simp [regroup, regroupGo_no_labels items [] h]

/-- statements in front of the first label stay in front, in order -/
theorem regroupGo_prefix (pre rest done : List Val) (h : ∀ v ∈ pre, isLabelV v = false) :
    regroupGo (pre ++ rest) done none = regroupGo rest (done ++ pre) none := by
  induction pre generalizing done with
  | nil => simp
  | cons v r ih =>
    have hv := h v (by simp)
    simp only [List.cons_append, regroupGo, peel_nonlabel _ v hv]
    rw [ih _ (fun w hw => h w (by simp [hw]))]
    simp

end PycModel.C05
