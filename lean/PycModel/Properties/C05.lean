import PycModel.Spec.Stmt
import PycModel.Properties.Tables
import PycModel.Proofs.SwitchRefine
import PycModel.Proofs.StmtSkel
import PycModel.Proofs.TransUnit
/-!
# C05 — statement ASTs mirror C's statement nesting and source order

Specification: `Spec/Stmt.lean` (`Stmt`, `renderS`, `Stmt.toVal`, `regroup`).
-/
namespace PycModel.C05
open PycModel PycModel.Spec

variable {env : Env}

theorem peel_nonlabel (fuel : Nat) (v : Val) (h : isLabelV v = false) :
    peelLabelsV fuel v = ([], [v]) := by
  cases fuel <;> simp [peelLabelsV, h]

theorem regroupGo_no_labels (items done : List Val) (h : ∀ v ∈ items, isLabelV v = false) :
    regroupGo items done none = done ++ items := by
  induction items generalizing done with
  | nil => simp [regroupGo]
  | cons v r ih =>
    have hv := h v (by simp)
    simp only [regroupGo, peel_nonlabel _ v hv]
    rw [ih _ (fun w hw => h w (by simp [hw]))]
    simp

/-- a switch block without case/default labels is left exactly as written -/
theorem regroup_no_labels (items : List Val) (h : ∀ v ∈ items, isLabelV v = false) :
    regroup items = items := by
  simp [regroup, regroupGo_no_labels items [] h]

/-- statements in front of the first label stay in front, in order -/
theorem regroupGo_prefix (pre rest done : List Val) (h : ∀ v ∈ pre, isLabelV v = false) :
    regroupGo (pre ++ rest) done none = regroupGo rest (done ++ pre) none := by
  induction pre generalizing done with
  | nil => simp
  | cons v r ih =>
    have hv := h v (by simp)
    simp only [List.cons_append, regroupGo, peel_nonlabel _ v hv]
    rw [ih _ (fun w hw => h w (by simp [hw]))]
    simp


/-! ## `fix_switch_cases` (model of `ast_transforms.py`) = the specification's regrouping -/

open SwitchRefine in
/-- **Refinement.** On every switch block whose labelled items have the shape the parser builds
(`ParserShaped`: each `case`/`default` node owns exactly one statement), the model of the main
loop of `fix_switch_cases` returns exactly the regrouping written from the property's wording -
without error, from any parser state, for blocks of any length and label chains of any depth. -/
theorem fixSwitchLoop_eq_regroup (items : List Val) (hwf : ParserShaped items) (s : PState) :
    fixSwitchLoop items [] false s = .ok (regroup items) s :=
  (loop_refines items hwf s []).1

open SwitchRefine in
/-- the whole transform on a `Switch` node with a block body = `switchBodyV` of the specification -/
theorem fixSwitchCases_eq_spec (co bco : Option Coord) (cond : Val) (items : List Val)
    (hwf : ParserShaped items) (s : PState) :
    fixSwitchCases (.node .Switch co [cond, .node .Compound bco [.list items]]) s
      = .ok (.node .Switch co [cond, switchBodyV (.node .Compound bco [.list items])]) s := by
  have h := fixSwitchLoop_eq_regroup items hwf s
  simp [fixSwitchCases, bind_apply, pure_apply, attrOrCrash, valCoord, Val.coord?, h, switchBodyV, mk]

open SwitchRefine in
/-- an empty block (`block_items` is `None`) becomes an empty list, as in the specification -/
theorem fixSwitchCases_empty_block (co bco : Option Coord) (cond : Val) (s : PState) :
    fixSwitchCases (.node .Switch co [cond, .node .Compound bco [.none]]) s
      = .ok (.node .Switch co [cond, switchBodyV (.node .Compound bco [.none])]) s := by
  simp [fixSwitchCases, bind_apply, pure_apply, attrOrCrash, valCoord, Val.coord?, switchBodyV, mk, fixSwitchLoop]

open SwitchRefine in
/-- what `_parse_labeled_statement` builds (`mk .Case co [expr, .list [stmt]]`,
`mk .Default co [.list [stmt]]`) is a label chain whenever its sub-statement is one or is no label -/
theorem labeled_statement_shape (co : Option Coord) (e stmt : Val)
    (h : isLabelV stmt = true → ∃ n, LabelChain n stmt) :
    (∃ n, LabelChain n (mk .Case co [e, .list [stmt]])) ∧
    (∃ n, LabelChain n (mk .Default co [.list [stmt]])) := by
  cases hs : isLabelV stmt with
  | false => exact ⟨⟨1, .caseLeaf co e stmt hs⟩, ⟨1, .defLeaf co stmt hs⟩⟩
  | true =>
    obtain ⟨n, hc⟩ := h hs
    exact ⟨⟨n + 1, .caseStep co e stmt n hc⟩, ⟨n + 1, .defStep co stmt n hc⟩⟩

open SwitchRefine in
/-- non-vacuity: `x; case 1: case 2: a; b; default: c;` is parser-shaped and regroups to
`x; case 1: ; case 2: a b; default: c` -/
example :
    let a := Val.node .ID none [.str "a"]; let b := Val.node .ID none [.str "b"]
    let c := Val.node .ID none [.str "c"]; let x := Val.node .ID none [.str "x"]
    let one := Val.node .Constant none [.str "int", .str "1"]
    let two := Val.node .Constant none [.str "int", .str "2"]
    let items := [x, .node .Case none [one, .list [.node .Case none [two, .list [a]]]], b,
                  .node .Default none [.list [c]]]
    ParserShaped items ∧
    regroup items = [x, .node .Case none [one, .list []], .node .Case none [two, .list [a, b]],
                     .node .Default none [.list [c]]] := by
  refine ⟨?_, by rfl⟩
  intro v hv hl
  simp only [List.mem_cons, List.mem_nil_iff, or_false] at hv
  rcases hv with rfl | rfl | rfl | rfl
  · cases hl
  · exact ⟨2, .caseStep _ _ _ _ (.caseLeaf _ _ _ rfl)⟩
  · cases hl
  · exact ⟨1, .defLeaf _ _ rfl⟩

/-! ## statement nesting, for statements of any size and depth -/
open PycModel.StmtSkel PycModel.View PycModel.FullExpr in
/-- **Statement ASTs mirror C's statement nesting** (6.8): for every statement `st` of
`S ::= X ; | ; | { S* } | if ( X ) S | if ( X ) S else S | while ( X ) S | do S while ( X ) ; |
return X? ; | break ; | continue ; | case X : S | default : S | switch ( X ) S | for ( X? ; X? ; X? ) S |
goto name ; | name : S` (expressions `X` as
in `C02`: every operator, call, subscript and constant above type names), of any size and nesting depth,
`_parse_statement` of the parser model returns `st.val`: an `else` belongs to the nearest `if` that
can take it (`WFS`: the `then` branch of an `if ... else` does not end with an `else`-less `if`),
loop and branch bodies are the single following statement, the items of a block keep their source
order, expression statements are their expression, a `case`/`default` label owns the statement
that follows it, and the block of a `switch` comes back regrouped exactly as the specification
`Spec.switchBodyV` / `regroup` says (every statement under the nearest preceding label, consecutive
labels as siblings, statements before the first label untouched): `fix_switch_cases` is applied to
what the parser built, whose labelled items are *proved* to have the shape the refinement theorem
needs (`StmtSkel.svals_shaped`) - and exactly the tokens of `st` are consumed.
Nothing is assumed about the parser; braces move the scope stack at lex time (`View.lexScopes`). -/
theorem statements_nest_as_the_grammar_says (st : S) (hwf : WFS env.ty st) (s : PState) (rest : List Tk)
    (hs : SeesT env s (st.flat ++ rest))
    (hel : st.openIf = true → ∀ k v r, rest = (k, v) :: r → k ≠ "ELSE") (F : Nat) (hF : st.fuel ≤ F) :
    ∃ s', run F .statement s = .ok (st.val s.idx) s' ∧ SeesT env s' rest ∧ s'.idx = s.idx + st.ntoks :=
  parse_stmt st hwf s rest hs hel F hF

open PycModel.StmtSkel PycModel.View PycModel.FullExpr in
/-- non-vacuity, the dangling else: `if ( a ) if ( b ) x ; else { y ; while ( c ) break ; }` - the
`else` goes to the inner `if` -/
example : ∃ s',
    run 300 .statement
      (initState ([("IF", "if"), ("LPAREN", "("), ("ID", "a"), ("RPAREN", ")"), ("IF", "if"), ("LPAREN", "("), ("ID", "b"),
                   ("RPAREN", ")"), ("ID", "x"), ("SEMI", ";"), ("ELSE", "else"), ("LBRACE", "{"), ("ID", "y"), ("SEMI", ";"),
                   ("WHILE", "while"), ("LPAREN", "("), ("ID", "c"), ("RPAREN", ")"), ("BREAK", "break"), ("SEMI", ";"),
                   ("RBRACE", "}")].map (fun t => SEv.tok t.1 t.2) ++ [.eof]))
      = .ok (mk .If (tc 0) [ParenExpr.idNode 2 "a",
              mk .If (tc 4) [ParenExpr.idNode 6 "b", ParenExpr.idNode 8 "x",
                mk .Compound (tc 11) [.list [ParenExpr.idNode 12 "y",
                  mk .While (tc 14) [ParenExpr.idNode 16 "c", mk .Break (tc 18) []]]]],
              .none]) s' ∧ (∃ env, SeesT env s' []) := by
  let st : S := .ifThen (.id "a") (.ifElse (.id "b") (.expr (.id "x"))
    (.block (.cons (.expr (.id "y")) (.cons (.while_ (.id "c") .brk) .nil))))
  have hwf : WFS (fun _ => false) st := by
    refine .ifThen _ _ (.id _ _) (.ifElse _ _ _ (.id _ _) (.expr _ (.id _ _)) rfl ?_)
    exact .block _ (.cons _ _ (.expr _ (.id _ _)) (.cons _ _ (.while_ _ _ (.id _ _) .brk) .nil))
  have hs := ParenExpr.seesT_init [("IF", "if"), ("LPAREN", "("), ("ID", "a"), ("RPAREN", ")"), ("IF", "if"), ("LPAREN", "("), ("ID", "b"),
    ("RPAREN", ")"), ("ID", "x"), ("SEMI", ";"), ("ELSE", "else"), ("LBRACE", "{"), ("ID", "y"), ("SEMI", ";"),
    ("WHILE", "while"), ("LPAREN", "("), ("ID", "c"), ("RPAREN", ")"), ("BREAK", "break"), ("SEMI", ";"),
    ("RBRACE", "}")]
  obtain ⟨s', hr, hs', _⟩ := parse_stmt st hwf _ [] (by simpa [st, S.flat, SL.flat, X.flat] using hs)
    (by intro _ k v r h; cases h) 300 (by decide)
  exact ⟨s', hr, _, hs'⟩

open PycModel.StmtSkel PycModel.View PycModel.FullExpr in
/-- non-vacuity, switch regrouping: `switch ( x ) { a ; case p : case q : b ; c ; default : d ; }`
comes back as `a; case p: ; case q: b c; default: d` -/
example : ∃ s',
    run 300 .statement
      (initState ([("SWITCH", "switch"), ("LPAREN", "("), ("ID", "x"), ("RPAREN", ")"), ("LBRACE", "{"), ("ID", "a"), ("SEMI", ";"),
                   ("CASE", "case"), ("ID", "p"), ("COLON", ":"), ("CASE", "case"), ("ID", "q"), ("COLON", ":"), ("ID", "b"),
                   ("SEMI", ";"), ("ID", "c"), ("SEMI", ";"), ("DEFAULT", "default"), ("COLON", ":"), ("ID", "d"), ("SEMI", ";"),
                   ("RBRACE", "}")].map (fun t => SEv.tok t.1 t.2) ++ [.eof]))
      = .ok (mk .Switch (tc 0) [ParenExpr.idNode 2 "x",
              mk .Compound (tc 4) [.list [ParenExpr.idNode 5 "a",
                mk .Case (tc 7) [ParenExpr.idNode 8 "p", .list []],
                mk .Case (tc 10) [ParenExpr.idNode 11 "q", .list [ParenExpr.idNode 13 "b", ParenExpr.idNode 15 "c"]],
                mk .Default (tc 17) [.list [ParenExpr.idNode 19 "d"]]]]]) s' ∧ (∃ env, SeesT env s' []) := by
  let st : S := .switch_ (.id "x") (.block (.cons (.expr (.id "a"))
    (.cons (.case_ (.id "p") (.case_ (.id "q") (.expr (.id "b"))))
    (.cons (.expr (.id "c")) (.cons (.default_ (.expr (.id "d"))) .nil)))))
  have hwf : WFS (fun _ => false) st := by
    refine .switch_ _ _ (.id _ _) (.block _ (.cons _ _ (.expr _ (.id _ _)) (.cons _ _ ?_ (.cons _ _ (.expr _ (.id _ _))
      (.cons _ _ (.default_ _ (.expr _ (.id _ _))) .nil)))))
    exact .case_ _ _ (.id _ _) (.case_ _ _ (.id _ _) (.expr _ (.id _ _)))
  have hs := ParenExpr.seesT_init [("SWITCH", "switch"), ("LPAREN", "("), ("ID", "x"), ("RPAREN", ")"), ("LBRACE", "{"), ("ID", "a"), ("SEMI", ";"),
    ("CASE", "case"), ("ID", "p"), ("COLON", ":"), ("CASE", "case"), ("ID", "q"), ("COLON", ":"), ("ID", "b"),
    ("SEMI", ";"), ("ID", "c"), ("SEMI", ";"), ("DEFAULT", "default"), ("COLON", ":"), ("ID", "d"), ("SEMI", ";"),
    ("RBRACE", "}")]
  obtain ⟨s', hr, hs', _⟩ := parse_stmt st hwf _ [] (by simpa [st, S.flat, SL.flat, X.flat] using hs)
    (by intro _ k v r h; cases h) 300 (by decide)
  exact ⟨s', hr, _, hs'⟩

open PycModel.StmtSkel PycModel.View PycModel.FullExpr in
/-- non-vacuity, `for` / `goto` / labels: `for ( ; i < n ; i ++ ) L : if ( a [ i ] ) goto L ;` -/
example : ∃ s',
    run 300 .statement
      (initState ([("FOR", "for"), ("LPAREN", "("), ("SEMI", ";"), ("ID", "i"), ("LT", "<"), ("ID", "n"), ("SEMI", ";"),
                   ("ID", "i"), ("PLUSPLUS", "++"), ("RPAREN", ")"), ("ID", "L"), ("COLON", ":"), ("IF", "if"), ("LPAREN", "("),
                   ("ID", "a"), ("LBRACKET", "["), ("ID", "i"), ("RBRACKET", "]"), ("RPAREN", ")"), ("GOTO", "goto"), ("ID", "L"),
                   ("SEMI", ";")].map (fun t => SEv.tok t.1 t.2) ++ [.eof]))
      = .ok (mk .For (tc 0) [.none,
              mk .BinaryOp (tc 3) [.str "<", ParenExpr.idNode 3 "i", ParenExpr.idNode 5 "n"],
              mk .UnaryOp (tc 7) [.str "p++", ParenExpr.idNode 7 "i"],
              mk .Label (tc 10) [.str "L",
                mk .If (tc 12) [mk .ArrayRef (tc 14) [ParenExpr.idNode 14 "a", ParenExpr.idNode 16 "i"],
                  mk .Goto (tc 19) [.str "L"], .none]]]) s' ∧ (∃ env, SeesT env s' []) := by
  let st : S := .for_ none (some (.bin "LT" "<" (.id "i") (.id "n"))) (some (.post "PLUSPLUS" "++" (.id "i")))
    (.label "L" (.ifThen (.index (.id "a") (.id "i")) (.goto_ "L")))
  have hwf : WFS (fun _ => false) st := by
    refine .for_ _ _ _ _ (by intro e h; cases h) ?_ ?_ (.label _ _ (.ifThen _ _ (.index _ _ _ (by omega) (.id _ _) (.id _ _)) (.goto_ _)))
    · intro e h; cases h; exact .bin _ 6 _ _ _ _ (by decide) (by omega) (.id _ _) (.id _ _)
    · intro e h; cases h; exact .post _ _ _ _ (by omega) (by decide) (.id _ _)
  have hs := ParenExpr.seesT_init [("FOR", "for"), ("LPAREN", "("), ("SEMI", ";"), ("ID", "i"), ("LT", "<"), ("ID", "n"), ("SEMI", ";"),
    ("ID", "i"), ("PLUSPLUS", "++"), ("RPAREN", ")"), ("ID", "L"), ("COLON", ":"), ("IF", "if"), ("LPAREN", "("),
    ("ID", "a"), ("LBRACKET", "["), ("ID", "i"), ("RBRACKET", "]"), ("RPAREN", ")"), ("GOTO", "goto"), ("ID", "L"),
    ("SEMI", ";")]
  obtain ⟨s', hr, hs', _⟩ := parse_stmt st hwf _ [] (by simpa [st, S.flat, X.flat, oflat] using hs)
    (by intro _ k v r h; cases h) 300 (by decide)
  exact ⟨s', hr, _, hs'⟩

open PycModel.View PycModel.DeclParse PycModel.TransUnit PycModel.StmtSkel in
/-- **Declarations and statements of a block appear in source order, at every nesting depth.**
For every body `{ item ... item }` whose items are declarations (of
`C03.declarations_parse_as_the_grammar_says`) and statements (of
`statements_nest_as_the_grammar_says` - which themselves may be blocks with their own declarations
and `for` loops with a declaration as first clause) in any order and number,
`_parse_compound_statement` returns the `Compound` whose block items are the items' ASTs
concatenated in source order (a declaration contributes one `Decl` per declared name, a statement
its tree), and consumes exactly the tokens of the body. -/
theorem block_items_in_source_order {env : Env} (l : SL) (hw : WFSL env.ty l) (s : PState) (rest : List Tk)
    (hs : SeesT env s (bodyFlat l ++ rest)) (F : Nat) (hF : l.fuel + 2 ≤ F) :
    ∃ s', run F .compoundStatement s = .ok (bodyVal s.idx l) s' ∧ SeesT env s' rest ∧
      s'.idx = s.idx + l.ntoks + 2 :=
  compound_ok l hw s rest hs F hF

/-- concatenation of block-item lists -/
def _root_.PycModel.StmtSkel.SL.append : StmtSkel.SL → StmtSkel.SL → StmtSkel.SL
  | .nil, b => b
  | .cons s r, b => .cons s (r.append b)
  | .consD dc r, b => .consD dc (r.append b)
  | .consP p r, b => .consP p (r.append b)

open PycModel.StmtSkel in
theorem append_ntoks : ∀ (a b : SL), (a.append b).ntoks = a.ntoks + b.ntoks
  | .nil, b => by simp [SL.append, SL.ntoks]
  | .cons s r, b => by simp [SL.append, SL.ntoks, append_ntoks r b, Nat.add_assoc]
  | .consD dc r, b => by simp [SL.append, SL.ntoks, append_ntoks r b, Nat.add_assoc]
  | .consP p r, b => by simp [SL.append, SL.ntoks, append_ntoks r b, Nat.add_assoc]

open PycModel.StmtSkel in
/-- the block items are the concatenation of the items' values, in order -/
theorem block_items_concat : ∀ (n : Nat) (a b : SL),
    SL.vals n (a.append b) = SL.vals n a ++ SL.vals (n + a.ntoks) b
  | n, .nil, b => by simp [SL.vals, SL.ntoks, SL.append]
  | n, .cons s r, b => by simp [SL.vals, SL.ntoks, SL.append, block_items_concat _ r b, Nat.add_assoc]
  | n, .consD dc r, b => by simp [SL.vals, SL.ntoks, SL.append, block_items_concat _ r b, Nat.add_assoc]
  | n, .consP p r, b => by simp [SL.vals, SL.ntoks, SL.append, block_items_concat _ r b, Nat.add_assoc]

open PycModel.StmtSkel PycModel.View PycModel.FullExpr PycModel.DeclParse PycModel.DeclSkel PycModel.TransUnit in
/-- non-vacuity, declarations at every depth:
`{ int a ; { int b = a ; for ( int i = 0 ; i < b ; i ++ ) a = i ; } }` -/
example : ∃ s',
    run 400 .compoundStatement
      (initState ([("LBRACE", "{"), ("INT", "int"), ("ID", "a"), ("SEMI", ";"), ("LBRACE", "{"), ("INT", "int"), ("ID", "b"),
                   ("EQUALS", "="), ("ID", "a"), ("SEMI", ";"), ("FOR", "for"), ("LPAREN", "("), ("INT", "int"), ("ID", "i"),
                   ("EQUALS", "="), ("INT_CONST_DEC", "0"), ("SEMI", ";"), ("ID", "i"), ("LT", "<"), ("ID", "b"), ("SEMI", ";"),
                   ("ID", "i"), ("PLUSPLUS", "++"), ("RPAREN", ")"), ("ID", "a"), ("EQUALS", "="), ("ID", "i"), ("SEMI", ";"),
                   ("RBRACE", "}"), ("RBRACE", "}")].map (fun t => SEv.tok t.1 t.2) ++ [.eof]))
      = .ok (mk .Compound (tc 0) [.list [
              mk .Decl (tc 2) [.str "a", .list [], .list [], .list [], .list [],
                mk .TypeDecl (tc 2) [.str "a", .list [], .none, mk .IdentifierType (tc 1) [.list [.str "int"]]], .none, .none],
              mk .Compound (tc 4) [.list [
                mk .Decl (tc 6) [.str "b", .list [], .list [], .list [], .list [],
                  mk .TypeDecl (tc 6) [.str "b", .list [], .none, mk .IdentifierType (tc 5) [.list [.str "int"]]],
                  ParenExpr.idNode 8 "a", .none],
                mk .For (tc 10) [
                  mk .DeclList (tc 10) [.list [
                    mk .Decl (tc 13) [.str "i", .list [], .list [], .list [], .list [],
                      mk .TypeDecl (tc 13) [.str "i", .list [], .none, mk .IdentifierType (tc 12) [.list [.str "int"]]],
                      mk .Constant (tc 15) [.str "int", .str "0"], .none]]],
                  mk .BinaryOp (tc 17) [.str "<", ParenExpr.idNode 17 "i", ParenExpr.idNode 19 "b"],
                  mk .UnaryOp (tc 21) [.str "p++", ParenExpr.idNode 21 "i"],
                  mk .Assignment (tc 24) [.str "=", ParenExpr.idNode 24 "a", ParenExpr.idNode 26 "i"]]]]]]) s' ∧
        (∃ env, SeesT env s' []) := by
  let dA : Dcl := { specs := [("INT", "int")], first := { d := .name "a", init := none }, more := [] }
  let dB : Dcl := { specs := [("INT", "int")], first := { d := .name "b", init := some (.expr (.id "a")) }, more := [] }
  let dI : Dcl := { specs := [("INT", "int")], first := { d := .name "i", init := some (.expr (.const "INT_CONST_DEC" "0" "int")) }, more := [] }
  let l : SL := .consD dA (.cons (.block (.consD dB (.cons
    (.forD dI (some (.bin "LT" "<" (.id "i") (.id "b"))) (some (.post "PLUSPLUS" "++" (.id "i")))
      (.expr (.assign "EQUALS" "=" (.id "a") (.id "i")))) .nil))) .nil)
  have hsp : SpecToks false [("INT", "int")] := by simp [SpecToks, typeSpecSimple]
  have hsv : SpecVals [("INT", "int")] := by
    intro t ht; simp only [List.mem_singleton] at ht; subst ht; exact ⟨by decide, by decide⟩
  have hA : WFDcl dA := ⟨hsp, hsv, rfl, ⟨.name _, by intro e h; cases h⟩, by intro it h; cases h⟩
  have hB : WFDcl dB := ⟨hsp, hsv, rfl, ⟨.name _, by intro e h; cases h; exact .expr _ (.id _ _)⟩, by intro it h; cases h⟩
  have hI : WFDcl dI := ⟨hsp, hsv, rfl, ⟨.name _, by intro e h; cases h; exact .expr _ (.const _ _ _ _ (by decide))⟩, by intro it h; cases h⟩
  have hw : WFSL (fun _ => false) l := by
    refine .consD _ _ hA (fun _ _ => rfl) (.cons _ _ (.block _ (.consD _ _ hB (fun _ _ => rfl) (.cons _ _ ?_ .nil))) .nil)
    refine .forD _ _ _ _ hI (fun _ _ => rfl) ?_ ?_ (.expr _ (.assign _ _ _ _ _ (by omega) (by decide) (.id _ _) (.id _ _)))
    · intro e h; cases h; exact .bin _ 6 _ _ _ _ (by decide) (by omega) (.id _ _) (.id _ _)
    · intro e h; cases h; exact .post _ _ _ _ (by omega) (by decide) (.id _ _)
  have hs := ParenExpr.seesT_init (bodyFlat l ++ [])
  obtain ⟨s', hr, hs', _⟩ := compound_ok l hw _ [] hs 400 (by decide)
  exact ⟨s', hr, _, hs'⟩

open PycModel.StmtSkel PycModel.View PycModel.FullExpr PycModel.TransUnit in
/-- non-vacuity, `#pragma` lines between block items, checked by the kernel: in
`{ #pragma omp parallel` / `a ;` / `#pragma` / `b ; }` each directive is an item of its own, at its
place; its coordinate is that of its text (or of the directive when it has none) -/
example : ∃ s',
    run 400 .compoundStatement
      (initState ([("LBRACE", "{"), ("PPPRAGMA", "pragma"), ("PPPRAGMASTR", "omp parallel"), ("ID", "a"), ("SEMI", ";"),
                   ("PPPRAGMA", "pragma"), ("ID", "b"), ("SEMI", ";"), ("RBRACE", "}")].map (fun t => SEv.tok t.1 t.2) ++ [.eof])) =
      .ok (mk .Compound (tc 0) [.list [
            mk .Pragma (tc 2) [.str "omp parallel"],
            ParenExpr.idNode 3 "a",
            mk .Pragma (tc 5) [.str ""],
            ParenExpr.idNode 6 "b"]]) s' ∧
        (∃ env, SeesT env s' []) := by
  let l : SL := .consP (some "omp parallel") (.cons (.expr (.id "a")) (.consP none (.cons (.expr (.id "b")) .nil)))
  have hw : WFSL (fun _ => false) l :=
    .consP _ _ (.cons _ _ (.expr _ (.id _ _)) (.consP _ _ (.cons _ _ (.expr _ (.id _ _)) .nil)))
  have hs := ParenExpr.seesT_init (bodyFlat l ++ [])
  obtain ⟨s', hr, hs', _⟩ := compound_ok l hw _ [] hs 400 (by decide)
  exact ⟨s', hr, _, hs'⟩

end PycModel.C05
