import PycModel.Properties.Tables
import PycModel.Properties.C09
/-!
# C01 — every valid C99 / supported-C11 translation unit is accepted

Full statement (not proved): for every translation unit derivable from the grammar of
`Spec/Expr.lean`, `Spec/Decl.lean`, `Spec/Stmt.lean` the parser model returns a tree.
Kernel-checked today: the vocabulary obligations (keywords, punctuators: `C09`) and the
FIRST-set obligations (`Tables`) that decide declaration vs expression vs statement.
-/
namespace PycModel.C01
end PycModel.C01
