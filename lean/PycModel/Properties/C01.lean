import PycModel.Properties.Tables
import PycModel.Properties.C09
import PycModel.Proofs.StmtSkel
import PycModel.Proofs.TransUnit
import PycModel.Proofs.TuFuel
/-!
# C01 — every valid C99 / supported-C11 translation unit is accepted

Full statement (not proved): for every translation unit derivable from the grammar of
`Spec/Expr.lean`, `Spec/Decl.lean`, `Spec/Stmt.lean` the parser model returns a tree.
Kernel-checked: the vocabulary obligations (keywords, punctuators: `C09`), the FIRST-set obligations
(`Tables`) that decide declaration vs expression vs statement, and - for inputs of any size -
acceptance of every expression and every statement of the fragments of `Proofs/FullExpr.lean` and
`Proofs/StmtSkel.lean` (everything above type names; statements without declarations, `for`, `goto`
and identifier labels), with a fuel bound linear in the number of tokens.
-/
namespace PycModel.C01
open PycModel PycModel.View PycModel.FullExpr PycModel.StmtSkel

variable {env : Env}

/-- **Every well-formed expression is accepted** (never a syntax error, never a crash): from any
state that sees the tokens of an expression derivable at the comma level followed by a token that
cannot continue it, `_parse_expression` returns a tree, within `13 * tokens` steps of recursion. -/
theorem wellformed_expressions_are_accepted (e : X) (hwf : WFX 0 e) (s : PState) (stop : Tk) (rest : List Tk)
    (hstop : StopX stop.1) (hs : SeesT env s (e.flat ++ stop :: rest)) :
    ∃ v s', run (13 * e.ntoks) .expression s = .ok v s' := by
  obtain ⟨s', h, _⟩ := parse_full e hwf s stop rest hstop hs (13 * e.ntoks) (FullExpr.fuel_linear e)
  exact ⟨_, s', h⟩

/-- **Every well-formed statement is accepted**: from any state that sees the tokens of a statement
of the fragment (followed, if it ends with an `else`-less `if`, by something other than `else`),
`_parse_statement` returns a tree, within `17 * tokens` steps of recursion. -/
theorem wellformed_statements_are_accepted (st : S) (hwf : WFS env.ty st) (s : PState) (rest : List Tk)
    (hs : SeesT env s (st.flat ++ rest))
    (hel : st.openIf = true → ∀ k v r, rest = (k, v) :: r → k ≠ "ELSE") :
    ∃ v s', run (17 * st.ntoks) .statement s = .ok v s' := by
  obtain ⟨s', h, _⟩ := parse_stmt st hwf s rest hs hel (17 * st.ntoks) (by have := TuFuel.S.fuel_linear st hwf; omega)
  exact ⟨_, s', h⟩

open PycModel.DeclSkel PycModel.DeclParse PycModel.TransUnit in
/-- **Whole translation units of the fragment are accepted, and parse to the `FileAST` the grammar
prescribes.**  The fragment: any number of external declarations, each a file-scope declaration
(specifiers: qualifiers, storage classes other than `typedef`, function specifiers, type keywords;
init-declarators with pointers, qualifiers, array and `()` suffixes and assignment-expression
initializers), a prototype `specifiers name ( parameters ) {, init-declarator} ;` or a function definition - with `()`, `( void )` or a prototype parameter list of named
parameters, whose names are registered in the body's scope - whose body is a block of such declarations and of the
statements of `wellformed_statements_are_accepted` (which nest to any depth, nested blocks with
declarations of their own and `for` loops whose first clause is a declaration included); every
construct of any size.  `WFExt (fun _ => false)`: no typedef names are in scope (the fragment has
no `typedef` declarations), so every declared name is an ordinary identifier.  `parseCore` is the model of `CParser.parse` on the token stream (`parse = finish ∘
parseCore ∘ strip`); the fuel bound `extsFuel l` is linear in the size of the program.
No hypothesis about the parser is left: token stream, scope stack, look-ahead scans and resets,
`_build_declarations`, `fix_atomic_specifiers`, `fix_switch_cases` are all executed. -/
theorem wellformed_translation_units_are_accepted (l : List Ext) (hw : ∀ e ∈ l, WFExt (fun _ => false) e) (F : Nat) (hF : extsFuel l ≤ F) :
    (parseCore F ((extsFlat l).map (fun t => SEv.tok t.1 t.2) ++ [.eof])).1 =
      .ast (mk .FileAST none [.list (extsVals 0 l)]) :=
  parse_translation_unit l hw F hF

open PycModel.DeclSkel PycModel.DeclParse PycModel.TransUnit in
/-- non-vacuity, checked by the kernel: `int g = 1 ; int main ( ) { int x = g ; return x + 1 ; }` -/
example :
    (parseCore 200 ([("INT", "int"), ("ID", "g"), ("EQUALS", "="), ("INT_CONST_DEC", "1"), ("SEMI", ";"), ("INT", "int"),
        ("ID", "main"), ("LPAREN", "("), ("RPAREN", ")"), ("LBRACE", "{"), ("INT", "int"), ("ID", "x"), ("EQUALS", "="),
        ("ID", "g"), ("SEMI", ";"), ("RETURN", "return"), ("ID", "x"), ("PLUS", "+"), ("INT_CONST_DEC", "1"), ("SEMI", ";"),
        ("RBRACE", "}")].map (fun t => SEv.tok t.1 t.2) ++ [.eof])).1 =
    .ast (mk .FileAST none [.list [
      mk .Decl (tc 1) [.str "g", .list [], .list [], .list [], .list [],
        mk .TypeDecl (tc 1) [.str "g", .list [], .none, mk .IdentifierType (tc 0) [.list [.str "int"]]],
        mk .Constant (tc 3) [.str "int", .str "1"], .none],
      mk .FuncDef (tc 6) [
        mk .Decl (tc 6) [.str "main", .list [], .list [], .list [], .list [],
          mk .FuncDecl (tc 6) [.none,
            mk .TypeDecl (tc 6) [.str "main", .list [], .none, mk .IdentifierType (tc 5) [.list [.str "int"]]]],
          .none, .none],
        .none,
        mk .Compound (tc 9) [.list [
          mk .Decl (tc 11) [.str "x", .list [], .list [], .list [], .list [],
            mk .TypeDecl (tc 11) [.str "x", .list [], .none, mk .IdentifierType (tc 10) [.list [.str "int"]]],
            mk .ID (tc 13) [.str "g"], .none],
          mk .Return (tc 15) [mk .BinaryOp (tc 16) [.str "+", mk .ID (tc 16) [.str "x"],
            mk .Constant (tc 18) [.str "int", .str "1"]]]]]]]]) := by
  let prog : List Ext :=
    [.decl { specs := [("INT", "int")], first := { d := .name "g", init := some (.expr (.const "INT_CONST_DEC" "1" "int")) }, more := [] },
     .fdef { specs := [("INT", "int")], d := .fn0 (.name "main"),
             body := .consD { specs := [("INT", "int")], first := { d := .name "x", init := some (.expr (.id "g")) }, more := [] }
                      (.cons (.ret (some (.bin "PLUS" "+" (.id "x") (.const "INT_CONST_DEC" "1" "int")))) .nil) }]
  have hint : SpecToks false [("INT", "int")] := by simp [SpecToks, typeSpecSimple]
  have hval : SpecVals [("INT", "int")] := by
    intro t ht; simp only [List.mem_singleton] at ht; subst ht; exact ⟨by decide, by decide⟩
  have hw : ∀ e ∈ prog, WFExt (fun _ => false) e := by
    intro e he
    simp only [prog, List.mem_cons, List.not_mem_nil, or_false] at he
    rcases he with rfl | rfl
    · exact ⟨hint, hval, rfl, ⟨.name _, by intro e h; cases h; exact .expr _ (.const _ _ _ _ (by decide))⟩, by intro it h; cases h⟩
    · refine ⟨hint, hval, rfl, .fn0 _ (.name _) rfl, ?_⟩
      refine .consD _ _ ⟨hint, hval, rfl, ⟨.name _, by intro e h; cases h; exact .expr _ (.id _ _)⟩, by intro it h; cases h⟩
        (fun _ _ => rfl) (.cons _ _ ?_ .nil)
      exact StmtSkel.WFS.retSome _ (.bin _ 8 _ _ _ _ (by decide) (by omega) (.id _ _) (.const _ _ _ _ (by decide)))
  exact parse_translation_unit prog hw 200 (by decide)

open PycModel.DeclSkel PycModel.DeclParse PycModel.TransUnit PycModel.Params in
/-- non-vacuity with a parameter list, checked by the kernel:
`int add ( int a , const int * b ) { return a + * b ; }` -/
example :
    (parseCore 200 ([("INT", "int"), ("ID", "add"), ("LPAREN", "("), ("INT", "int"), ("ID", "a"), ("COMMA", ","),
        ("CONST", "const"), ("INT", "int"), ("TIMES", "*"), ("ID", "b"), ("RPAREN", ")"), ("LBRACE", "{"), ("RETURN", "return"),
        ("ID", "a"), ("PLUS", "+"), ("TIMES", "*"), ("ID", "b"), ("SEMI", ";"), ("RBRACE", "}")].map (fun t => SEv.tok t.1 t.2) ++
        [.eof])).1 =
    .ast (mk .FileAST none [.list [
      mk .FuncDef (tc 1) [
        mk .Decl (tc 1) [.str "add", .list [], .list [], .list [], .list [],
          mk .FuncDecl (tc 1) [
            mk .ParamList (tc 4) [.list [
              mk .Decl (tc 4) [.str "a", .list [], .list [], .list [], .list [],
                mk .TypeDecl (tc 4) [.str "a", .list [], .none, mk .IdentifierType (tc 3) [.list [.str "int"]]], .none, .none],
              mk .Decl (tc 8) [.str "b", .list [.str "const"], .list [], .list [], .list [],
                mk .PtrDecl (tc 8) [.list [],
                  mk .TypeDecl (tc 9) [.str "b", .list [.str "const"], .none, mk .IdentifierType (tc 7) [.list [.str "int"]]]],
                .none, .none]]],
            mk .TypeDecl (tc 1) [.str "add", .list [], .none, mk .IdentifierType (tc 0) [.list [.str "int"]]]],
          .none, .none],
        .none,
        mk .Compound (tc 11) [.list [
          mk .Return (tc 12) [mk .BinaryOp (tc 13) [.str "+", mk .ID (tc 13) [.str "a"],
            mk .UnaryOp (tc 16) [.str "*", mk .ID (tc 16) [.str "b"]]]]]]]]]) := by
  let prog : List Ext :=
    [.fdefp { specs := [("INT", "int")],
              fd := { x := "add", params := .named { first := .named { specs := [("INT", "int")], d := .name "a" },
                                                     more := [.named { specs := [("CONST", "const"), ("INT", "int")], d := .ptr [[]] (.name "b") }] } },
              body := .cons (.ret (some (.bin "PLUS" "+" (.id "a") (.pre "TIMES" "*" (.id "b"))))) .nil }]
  have hint : SpecToks false [("INT", "int")] := by simp [SpecToks, typeSpecSimple]
  have hval : SpecVals [("INT", "int")] := by
    intro t ht; simp only [List.mem_singleton] at ht; subst ht; exact ⟨by decide, by decide⟩
  have hw : ∀ e ∈ prog, WFExt (fun _ => false) e := by
    intro e he
    simp only [prog, List.mem_singleton] at he
    subst he
    refine ⟨hint, hval, rfl, ⟨⟨hint, hval, rfl, .name _⟩, ?_⟩, ?_⟩
    · intro p hp; simp only [List.mem_singleton] at hp; subst hp
      refine ⟨by simp [SpecToks, quals3, typeSpecSimple, isTypeTok], ?_, rfl, .ptr _ _ (by simp) (by simp) (.name _) rfl⟩
      intro t ht; simp only [List.mem_cons, List.not_mem_nil, or_false] at ht
      rcases ht with rfl | rfl <;> exact ⟨by decide, by decide⟩
    · exact .cons _ _ (StmtSkel.WFS.retSome _ (.bin _ 8 _ _ _ _ (by decide) (by omega) (.id _ _)
        (.pre _ _ _ _ (by omega) (by decide) (.id _ _) (fun _ => rfl)))) .nil
  exact parse_translation_unit prog hw 200 (by decide)

open PycModel.DeclSkel PycModel.DeclParse PycModel.TransUnit PycModel.Params in
/-- non-vacuity, the parameter list `( void )`, checked by the kernel: `int main ( void ) { return 0 ; }` -/
example :
    (parseCore 200 ([("INT", "int"), ("ID", "main"), ("LPAREN", "("), ("VOID", "void"), ("RPAREN", ")"), ("LBRACE", "{"),
        ("RETURN", "return"), ("INT_CONST_DEC", "0"), ("SEMI", ";"), ("RBRACE", "}")].map (fun t => SEv.tok t.1 t.2) ++ [.eof])).1 =
    .ast (mk .FileAST none [.list [
      mk .FuncDef (tc 1) [
        mk .Decl (tc 1) [.str "main", .list [], .list [], .list [], .list [],
          mk .FuncDecl (tc 1) [
            mk .ParamList (tc 3) [.list [
              mk .Typename (tc 3) [.none, .list [], .none,
                mk .TypeDecl none [.none, .list [], .none, mk .IdentifierType (tc 3) [.list [.str "void"]]]]]],
            mk .TypeDecl (tc 1) [.str "main", .list [], .none, mk .IdentifierType (tc 0) [.list [.str "int"]]]],
          .none, .none],
        .none,
        mk .Compound (tc 5) [.list [mk .Return (tc 6) [mk .Constant (tc 7) [.str "int", .str "0"]]]]]]]) := by
  let prog : List Ext :=
    [.fdefp { specs := [("INT", "int")], fd := { x := "main", params := .void },
              body := .cons (.ret (some (.const "INT_CONST_DEC" "0" "int"))) .nil }]
  have hint : SpecToks false [("INT", "int")] := by simp [SpecToks, typeSpecSimple]
  have hval : SpecVals [("INT", "int")] := by
    intro t ht; simp only [List.mem_singleton] at ht; subst ht; exact ⟨by decide, by decide⟩
  have hw : ∀ e ∈ prog, WFExt (fun _ => false) e := by
    intro e he
    simp only [prog, List.mem_singleton] at he
    subst he
    exact ⟨hint, hval, rfl, trivial, .cons _ _ (StmtSkel.WFS.retSome _ (.const _ _ _ _ (by decide))) .nil⟩
  exact parse_translation_unit prog hw 200 (by decide)

open PycModel.DeclSkel PycModel.DeclParse PycModel.TransUnit PycModel.Params in
/-- non-vacuity, a prototype, checked by the kernel: `extern int add ( int a , const int * b ) ;` -/
example :
    (parseCore 200 ([("EXTERN", "extern"), ("INT", "int"), ("ID", "add"), ("LPAREN", "("), ("INT", "int"), ("ID", "a"), ("COMMA", ","),
        ("CONST", "const"), ("INT", "int"), ("TIMES", "*"), ("ID", "b"), ("RPAREN", ")"), ("SEMI", ";")].map (fun t => SEv.tok t.1 t.2) ++
        [.eof])).1 =
    .ast (mk .FileAST none [.list [
      mk .Decl (tc 2) [.str "add", .list [], .list [], .list [.str "extern"], .list [],
        mk .FuncDecl (tc 2) [
          mk .ParamList (tc 5) [.list [
            mk .Decl (tc 5) [.str "a", .list [], .list [], .list [], .list [],
              mk .TypeDecl (tc 5) [.str "a", .list [], .none, mk .IdentifierType (tc 4) [.list [.str "int"]]], .none, .none],
            mk .Decl (tc 9) [.str "b", .list [.str "const"], .list [], .list [], .list [],
              mk .PtrDecl (tc 9) [.list [],
                mk .TypeDecl (tc 10) [.str "b", .list [.str "const"], .none, mk .IdentifierType (tc 8) [.list [.str "int"]]]],
              .none, .none]]],
          mk .TypeDecl (tc 2) [.str "add", .list [], .none, mk .IdentifierType (tc 1) [.list [.str "int"]]]],
        .none, .none]]]) := by
  let prog : List Ext :=
    [.proto { specs := [("EXTERN", "extern"), ("INT", "int")],
              fd := { x := "add", params := .named { first := .named { specs := [("INT", "int")], d := .name "a" },
                                                     more := [.named { specs := [("CONST", "const"), ("INT", "int")], d := .ptr [[]] (.name "b") }] } },
              more := [] }]
  have hint : SpecToks false [("INT", "int")] := by simp [SpecToks, typeSpecSimple]
  have hval : SpecVals [("INT", "int")] := by
    intro t ht; simp only [List.mem_singleton] at ht; subst ht; exact ⟨by decide, by decide⟩
  have hw : ∀ e ∈ prog, WFExt (fun _ => false) e := by
    intro e he
    simp only [prog, List.mem_singleton] at he
    subst he
    refine ⟨by simp [SpecToks, storage5, typeSpecSimple, isTypeTok], ?_, rfl, ⟨⟨hint, hval, rfl, .name _⟩, ?_⟩, by intro it h; cases h⟩
    · intro t ht; simp only [List.mem_cons, List.not_mem_nil, or_false] at ht
      rcases ht with rfl | rfl <;> exact ⟨by decide, by decide⟩
    · intro p hp; simp only [List.mem_singleton] at hp; subst hp
      refine ⟨by simp [SpecToks, quals3, typeSpecSimple, isTypeTok], ?_, rfl, .ptr _ _ (by simp) (by simp) (.name _) rfl⟩
      intro t ht; simp only [List.mem_cons, List.not_mem_nil, or_false] at ht
      rcases ht with rfl | rfl <;> exact ⟨by decide, by decide⟩
  exact parse_translation_unit prog hw 200 (by decide)

open PycModel.DeclSkel PycModel.DeclParse PycModel.TransUnit PycModel.Params in
/-- non-vacuity, unnamed parameters, checked by the kernel: `int f ( int , const char * ) ;` -/
example :
    (parseCore 200 ([("INT", "int"), ("ID", "f"), ("LPAREN", "("), ("INT", "int"), ("COMMA", ","),
        ("CONST", "const"), ("CHAR", "char"), ("TIMES", "*"), ("RPAREN", ")"), ("SEMI", ";")].map (fun t => SEv.tok t.1 t.2) ++
        [.eof])).1 =
    .ast (mk .FileAST none [.list [
      mk .Decl (tc 1) [.str "f", .list [], .list [], .list [], .list [],
        mk .FuncDecl (tc 1) [
          mk .ParamList (tc 3) [.list [
            mk .Typename (tc 3) [.none, .list [], .none,
              mk .TypeDecl none [.none, .list [], .none, mk .IdentifierType (tc 3) [.list [.str "int"]]]],
            mk .Typename (tc 5) [.none, .list [.str "const"], .none,
              mk .PtrDecl (tc 7) [.list [],
                mk .TypeDecl none [.none, .list [.str "const"], .none, mk .IdentifierType (tc 6) [.list [.str "char"]]]]]]],
          mk .TypeDecl (tc 1) [.str "f", .list [], .none, mk .IdentifierType (tc 0) [.list [.str "int"]]]],
        .none, .none]]]) := by
  let prog : List Ext :=
    [.proto { specs := [("INT", "int")],
              fd := { x := "f", params := .named { first := .unnamed { specs := [("INT", "int")], stars := [] },
                                                   more := [.unnamed { specs := [("CONST", "const"), ("CHAR", "char")], stars := [[]] }] } },
              more := [] }]
  have hint : SpecToks false [("INT", "int")] := by simp [SpecToks, typeSpecSimple]
  have hval : SpecVals [("INT", "int")] := by
    intro t ht; simp only [List.mem_singleton] at ht; subst ht; exact ⟨by decide, by decide⟩
  have hw : ∀ e ∈ prog, WFExt (fun _ => false) e := by
    intro e he
    simp only [prog, List.mem_singleton] at he
    subst he
    refine ⟨hint, hval, rfl, ⟨⟨hint, rfl, (by intro q h; cases h), fun _ _ _ => rfl⟩, ?_⟩, by intro it h; cases h⟩
    intro p hp; simp only [List.mem_singleton] at hp; subst hp
    exact ⟨by simp [SpecToks, quals3, typeSpecSimple, isTypeTok], rfl,
      (by intro q h t ht; simp only [List.mem_singleton] at h; subst h; cases ht), fun _ _ _ => rfl⟩
  exact parse_translation_unit prog hw 200 (by decide)

end PycModel.C01
