import PycModel.Properties.Tables
import PycModel.Properties.C09
import PycModel.Proofs.StmtSkel
/-!
# C01 — every valid C99 / supported-C11 translation unit is accepted

Full statement (not proved): for every translation unit derivable from the grammar of
`Spec/Expr.lean`, `Spec/Decl.lean`, `Spec/Stmt.lean` the parser model returns a tree.
Kernel-checked: the vocabulary obligations (keywords, punctuators: `C09`), the FIRST-set obligations
(`Tables`) that decide declaration vs expression vs statement, and - for inputs of any size -
acceptance of every expression and every statement of the fragments of `Proofs/FullExpr.lean` and
`Proofs/StmtSkel.lean` (everything above type names; statements without declarations, `for`, `goto`
and identifier labels), with a fuel bound linear in the number of tokens.
-/
namespace PycModel.C01
open PycModel PycModel.View PycModel.FullExpr PycModel.StmtSkel

variable {env : Env}

/-- **Every well-formed expression is accepted** (never a syntax error, never a crash): from any
state that sees the tokens of an expression derivable at the comma level followed by a token that
cannot continue it, `_parse_expression` returns a tree, within `13 * tokens` steps of recursion. -/
theorem wellformed_expressions_are_accepted (e : X) (hwf : WFX 0 e) (s : PState) (stop : Tk) (rest : List Tk)
    (hstop : StopX stop.1) (hs : SeesT env s (e.flat ++ stop :: rest)) :
    ∃ v s', run (13 * e.ntoks) .expression s = .ok v s' := by
  obtain ⟨s', h, _⟩ := parse_full e hwf s stop rest hstop hs (13 * e.ntoks) (FullExpr.fuel_linear e)
  exact ⟨_, s', h⟩

/-- **Every well-formed statement is accepted**: from any state that sees the tokens of a statement
of the fragment (followed, if it ends with an `else`-less `if`, by something other than `else`),
`_parse_statement` returns a tree, within `13 * tokens` steps of recursion. -/
theorem wellformed_statements_are_accepted (st : S) (hwf : WFS st) (s : PState) (rest : List Tk)
    (hs : SeesT env s (st.flat ++ rest))
    (hel : st.openIf = true → ∀ k v r, rest = (k, v) :: r → k ≠ "ELSE") :
    ∃ v s', run (13 * st.ntoks) .statement s = .ok v s' := by
  obtain ⟨s', h, _⟩ := parse_stmt st hwf s rest hs hel (13 * st.ntoks) (by have := S.fuel_linear st; omega)
  exact ⟨_, s', h⟩

end PycModel.C01
