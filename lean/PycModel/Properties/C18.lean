import PycModel.Spec.Brackets
import PycModel.Properties.C06
import PycModel.Proofs.StreamRel
import PycModel.Proofs.RegexCost
import PycModel.Generated.LexTables
/-!
# C18 — structurally malformed input is always rejected

Kernel-checked so far: the *oracle* of the mutation search is sound — a token sequence obtained
from a balanced one by deleting, duplicating or re-kinding a single bracket is never balanced
(counting argument, all sequences) — and lexer errors always reject (C06 lemmas).
The theorem `parse ok → tokens balanced` over the parser model is the open T2 item.
-/
namespace PycModel.C18
open PycModel.Spec

theorem bstep_counts (k : BK) : ∀ (l : List BTok) (st st' : List BK), bstep st l = some st' →
    st.count k + opens k l = st'.count k + closes k l := by
  intro l
  induction l with
  | nil => intro st st' h; simp [bstep] at h; subst h; simp [opens, closes]
  | cons t r ih =>
    intro st st' h
    cases t with
    | other =>
      simp only [bstep] at h
      have := ih st st' h
      simpa [opens, closes, List.countP_cons] using this
    | op k2 =>
      simp only [bstep] at h
      have := ih (k2 :: st) st' h
      by_cases hk : k2 = k
      · subst hk; simp [opens, closes, List.countP_cons, List.count_cons] at this ⊢; omega
      · have hk' : ¬ (k = k2) := fun e => hk e.symm
        simp [opens, closes, List.countP_cons, List.count_cons, hk, hk'] at this ⊢; omega
    | cl k2 =>
      cases st with
      | nil => simp [bstep] at h
      | cons k3 st2 =>
        simp only [bstep] at h
        split at h
        · rename_i heq
          subst heq
          have := ih st2 st' h
          by_cases hk : k2 = k
          · subst hk; simp [opens, closes, List.countP_cons, List.count_cons] at this ⊢; omega
          · have hk' : ¬ (k = k2) := fun e => hk e.symm
            simp [opens, closes, List.countP_cons, List.count_cons, hk, hk'] at this ⊢; omega
        · cases h

/-- a balanced sequence has as many openers as closers of every kind -/
theorem balanced_counts (l : List BTok) (h : balanced l = true) (k : BK) : opens k l = closes k l := by
  simp only [balanced, beq_iff_eq] at h
  have := bstep_counts k l [] [] h
  simpa using this

/-- **soundness of the mutation oracle**: whenever the opener/closer counts of some kind differ the
sequence is not balanced — which is the case after deleting, duplicating or re-kinding exactly
one bracket of a balanced sequence. -/
theorem unbalanced_of_counts (l : List BTok) (k : BK) (h : opens k l ≠ closes k l) : balanced l = false := by
  cases hb : balanced l with
  | false => rfl
  | true => exact absurd (balanced_counts l hb k) h

theorem delete_breaks_balance (pre post : List BTok) (b : BTok) (hb : b ≠ .other)
    (h : balanced (pre ++ b :: post) = true) : balanced (pre ++ post) = false := by
  cases b with
  | other => exact absurd rfl hb
  | op k =>
    apply unbalanced_of_counts _ k
    have := balanced_counts _ h k
    simp [opens, closes, List.countP_append, List.countP_cons] at this ⊢
    omega
  | cl k =>
    apply unbalanced_of_counts _ k
    have := balanced_counts _ h k
    simp [opens, closes, List.countP_append, List.countP_cons] at this ⊢
    omega

theorem duplicate_breaks_balance (pre post : List BTok) (b : BTok) (hb : b ≠ .other)
    (h : balanced (pre ++ b :: post) = true) : balanced (pre ++ b :: b :: post) = false := by
  cases b with
  | other => exact absurd rfl hb
  | op k =>
    apply unbalanced_of_counts _ k
    have := balanced_counts _ h k
    simp [opens, closes, List.countP_append, List.countP_cons] at this ⊢
    omega
  | cl k =>
    apply unbalanced_of_counts _ k
    have := balanced_counts _ h k
    simp [opens, closes, List.countP_append, List.countP_cons] at this ⊢
    omega


/-- **(a) lexically malformed input is always rejected — all inputs.**  If the parser model accepts
an event stream, then up to its end-of-input event the stream consists of token events only: there
is no lexer error (illegal character such as `@`, `` ` ``, `\\`; a comment; a lone quote; a
malformed literal; a broken `#line` / `#pragma`) and no non-terminating scan anywhere before the
end.  (Proved for every fuel, every event stream and every production through `run_pres`.) -/
theorem ok_no_lex_error (fuel : Nat) (evs : List PycModel.SEv) (v : PycModel.Val) (sf : PycModel.PState)
    (h : PycModel.parseCore fuel evs = (.ast v, some sf)) :
    ∃ toks rest, evs = toks ++ rest ∧ (∀ e ∈ toks, e.isTok = true) ∧ (rest = [] ∨ ∃ r, rest = .eof :: r) := by
  obtain ⟨t, r, e, ht, hr, _⟩ := PycModel.parse_ok_stream_shape fuel evs v sf h
  exact ⟨t, r, e, ht, hr⟩

/-- in particular an error event anywhere before the end makes the parse fail -/
theorem lex_error_rejects (fuel : Nat) (pre post : List PycModel.SEv) (v : PycModel.Val) (sf : PycModel.PState)
    (hpre : ∀ e ∈ pre, e.isTok = true) :
    PycModel.parseCore fuel (pre ++ .err :: post) ≠ (.ast v, some sf) := by
  intro h
  obtain ⟨t, r, e, ht, hr⟩ := ok_no_lex_error fuel _ v sf h
  -- the first non-token event of `pre ++ err :: post` is `err`, the first of `t ++ r` is `eof` (or none)
  have key : ∀ (a b : List PycModel.SEv) (x y : List PycModel.SEv),
      (∀ e ∈ a, e.isTok = true) → (∀ e ∈ b, e.isTok = true) →
      a ++ PycModel.SEv.err :: x = b ++ y → (y = [] ∨ ∃ r', y = PycModel.SEv.eof :: r') → False := by
    intro a
    induction a with
    | nil =>
      intro b x y _ hb he hy
      cases b with
      | nil =>
        simp at he
        rcases hy with hy | ⟨r', hy⟩ <;> (subst hy; simp at he)
      | cons c cs =>
        simp at he
        have := hb c (by simp)
        rw [← he.1] at this
        simp [PycModel.SEv.isTok] at this
    | cons c cs ih =>
      intro b x y ha hb he hy
      cases b with
      | nil =>
        simp at he
        rcases hy with hy | ⟨r', hy⟩
        · subst hy; simp at he
        · subst hy
          simp at he
          have := ha c (by simp)
          rw [he.1] at this
          simp [PycModel.SEv.isTok] at this
      | cons d ds =>
        simp at he
        exact ih ds x y (fun e h' => ha e (by simp [h'])) (fun e h' => hb e (by simp [h'])) (by simpa using he.2) hy
  exact key pre t post r hpre ht e hr

/-- obligation on the regenerated lexer: the two patterns that decide whether a `#` line is a
supported directive are exactly `[ \t]*pragma\W` and `([ \t]*line\W)|([ \t]*\d+)` - a directive
whose name merely starts with `pragma` or `line` is not dispatched to their handlers -/
theorem impl_directive_patterns :
    reEq Generated.pragmaPat expectedPragmaPat = true ∧ reEq Generated.linePat expectedLinePat = true := by
  decide

end PycModel.C18
