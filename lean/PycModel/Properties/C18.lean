import PycModel.Spec.Brackets
import PycModel.Properties.C06
/-!
# C18 — structurally malformed input is always rejected

Kernel-checked so far: the *oracle* of the mutation search is sound — a token sequence obtained
from a balanced one by deleting, duplicating or re-kinding a single bracket is never balanced
(counting argument, all sequences) — and lexer errors always reject (C06 lemmas).
The theorem `parse ok → tokens balanced` over the parser model is the open T2 item.
-/
namespace PycModel.C18
open PycModel.Spec

theorem bstep_counts (k : BK) : ∀ (l : List BTok) (st st' : List BK), bstep st l = some st' →
    st.count k + opens k l = st'.count k + closes k l := by
  intro l
  induction l with
  | nil => intro st st' h; simp [bstep] at h; subst h; simp [opens, closes]
  | cons t r ih =>
    intro st st' h
    cases t with
    | other =>
      simp only [bstep] at h
      have := ih st st' h
      simpa [opens, closes, List.countP_cons] using this
    | op k2 =>
      simp only [bstep] at h
      have := ih (k2 :: st) st' h
      by_cases hk : k2 = k
      · subst hk; simp [opens, closes, List.countP_cons, List.count_cons] at this ⊢; omega
      · have hk' : ¬ (k = k2) := fun e => hk e.symm
        simp [opens, closes, List.countP_cons, List.count_cons, hk, hk'] at this ⊢; omega
    | cl k2 =>
      cases st with
      | nil => simp [bstep] at h
      | cons k3 st2 =>
        simp only [bstep] at h
        split at h
        · rename_i heq
          subst heq
          have := ih st2 st' h
          by_cases hk : k2 = k
          · subst hk; simp [opens, closes, List.countP_cons, List.count_cons] at this ⊢; omega
          · have hk' : ¬ (k = k2) := fun e => hk e.symm
            simp [opens, closes, List.countP_cons, List.count_cons, hk, hk'] at this ⊢; omega
        · cases h

/-- a balanced sequence has as many openers as closers of every kind -/
theorem balanced_counts (l : List BTok) (h : balanced l = true) (k : BK) : opens k l = closes k l := by
  simp only [balanced, beq_iff_eq] at h
  have := bstep_counts k l [] [] h
  simpa using this

/-- **soundness of the mutation oracle**: whenever the opener/closer counts of some kind differ the
sequence is not balanced — which is the case after deleting, duplicating or re-kinding exactly
one bracket of a balanced sequence. -/
theorem unbalanced_of_counts (l : List BTok) (k : BK) (h : opens k l ≠ closes k l) : balanced l = false := by
  cases hb : balanced l with
  | false => rfl
  | true => exact absurd (balanced_counts l hb k) h

theorem delete_breaks_balance (pre post : List BTok) (b : BTok) (hb : b ≠ .other)
    (h : balanced (pre ++ b :: post) = true) : balanced (pre ++ post) = false := by
  cases b with
  | other => exact absurd rfl hb
  | op k =>
    apply unbalanced_of_counts _ k
    have := balanced_counts _ h k
    simp [opens, closes, List.countP_append, List.countP_cons] at this ⊢
    omega
  | cl k =>
    apply unbalanced_of_counts _ k
    have := balanced_counts _ h k
    simp [opens, closes, List.countP_append, List.countP_cons] at this ⊢
    omega

theorem duplicate_breaks_balance (pre post : List BTok) (b : BTok) (hb : b ≠ .other)
    (h : balanced (pre ++ b :: post) = true) : balanced (pre ++ b :: b :: post) = false := by
  cases b with
  | other => exact absurd rfl hb
  | op k =>
    apply unbalanced_of_counts _ k
    have := balanced_counts _ h k
    simp [opens, closes, List.countP_append, List.countP_cons] at this ⊢
    omega
  | cl k =>
    apply unbalanced_of_counts _ k
    have := balanced_counts _ h k
    simp [opens, closes, List.countP_append, List.countP_cons] at this ⊢
    omega

end PycModel.C18
