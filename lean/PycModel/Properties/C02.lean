import PycModel.Properties.Tables
import PycModel.Proofs.ClimbConcrete
/-!
# C02 — expression ASTs follow C precedence, associativity and operator binding

Specification: `Spec/Expr.lean` (`Expr`, `render`, `toVal`).  Full statement (kept visible):
for every expression tree `e`, every admissible decoration `d` and every expression context,
the parser model returns `e.toVal` on `render q e d`.  Table obligations: `Properties/Tables.lean`.

Proved here, for trees of any size and depth: the **binary-operator layer** of that statement.
`Climb.WF binPrec m t` says `t` is derivable from the level-`m` nonterminal of the C expression
grammar (`E_m ::= E_m op_m E_{m+1} | E_{m+1}`, ten levels, all left-associative: 6.5.5-6.5.14),
with the level table `binPrec` that `Tables.impl_prec_is_c99` ties to `_BINARY_PRECEDENCE` of
`c_parser.py` and to C99.  Operands (cast-expressions) are abstract: `OperandSpec` is the
hypothesis that the operand parser parses each operand.
-/
namespace PycModel.C02
open PycModel PycModel.Climb PycModel.ClimbSim PycModel.ClimbConcrete PycModel.View

/-- **Binary operators group exactly as the C grammar says.** In every parser state that sees the
in-order tokens of a tree `t` of the level-`m` expression nonterminal followed by a continuation
`k` that does not start with an operand or a binary operator of level `m` or tighter,
`_parse_binary_expression(min_prec = m)` (model: `run F (.binaryExpression m none)`, any sufficient
fuel) returns `BinaryOp` nodes nested exactly like `t` - tighter levels deeper, equal levels to
the left - each at the coordinate of its left operand, and leaves exactly `k` unread.
The stream behaviour of `peek` / `advance` is proved (`Proofs/TokenView.lean`), not assumed. -/
theorem binary_operators_group_as_the_grammar_says
    (Op : Nat → Val → List Tk → Prop) (Follow : List Tk → Prop) (fuel0 : Nat)
    (hop : OperandSpec Op Follow fuel0)
    (t : BT) (m : Nat) (hwf : WF binPrec m t) (hn : Nodes t)
    (k : List PT) (hk : StopAt binPrec m k) (hkt : ∀ x ∈ k, PTok' x)
    (s : PState) (hs : SeesPT Op Follow s (t.toks ++ k)) :
    ∃ F0, ∀ F, F0 ≤ F → ∃ s', run F (.binaryExpression m none) s = .ok (toVal t) s' ∧ SeesPT Op Follow s' k :=
  binary_expression_parses_grammar_tree (iface Op Follow fuel0 hop) t m hwf hn k hk hkt s hs

/-- the pure algorithm (mirror of the two nested loops) returns the grammar's tree on every
well-formed token list, for every sufficient fuel -/
theorem precedence_climbing_correct (t : BT) (m : Nat) (h : WF binPrec m t) (k : List PT) (hk : StopAt binPrec m k) :
    ∃ f0, ∀ f, f0 ≤ f → climb binPrec f m none (t.toks ++ k) = some (t, k) :=
  climb_correct binPrec t m h k hk

/-- **"the unique tree the C grammar assigns"**: two derivations of the same token list from the
same level are the same tree -/
theorem grammar_tree_unique (t1 t2 : BT) (m : Nat) (h1 : WF binPrec m t1) (h2 : WF binPrec m t2)
    (h : t1.toks = t2.toks) : t1 = t2 :=
  wf_tree_unique binPrec t1 t2 m h1 h2 h

/-- non-vacuity: `a - b * c - d == e` is a level-0 tree, grouped `((a - (b * c)) - d) == e` -/
example (a b c d e : Val) :
    WF binPrec 0
      (.node "EQ" "=="
        (.node "MINUS" "-" (.node "MINUS" "-" (.leaf a) (.node "TIMES" "*" (.leaf b) (.leaf c))) (.leaf d))
        (.leaf e)) := by
  refine .node 0 5 _ _ _ _ (by decide) (by decide) ?_ (.leaf _ _)
  refine .node 5 8 _ _ _ _ (by decide) (by decide) ?_ (.leaf _ _)
  refine .node 8 8 _ _ _ _ (by decide) (by decide) (.leaf _ _) ?_
  exact .node 9 9 _ _ _ _ (by decide) (by decide) (.leaf _ _) (.leaf _ _)

end PycModel.C02
