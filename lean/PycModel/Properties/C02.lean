import PycModel.Properties.Tables
import PycModel.Proofs.ClimbConcrete
import PycModel.Proofs.OperandId
import PycModel.Proofs.ParenExpr
import PycModel.Proofs.FullExpr
/-!
# C02 — expression ASTs follow C precedence, associativity and operator binding

Specification: `Spec/Expr.lean` (`Expr`, `render`, `toVal`).  Full statement (kept visible):
for every expression tree `e`, every admissible decoration `d` and every expression context,
the parser model returns `e.toVal` on `render q e d`.  Table obligations: `Properties/Tables.lean`.

Proved here, for trees of any size and depth: the **binary-operator layer** of that statement.
`Climb.WF binPrec m t` says `t` is derivable from the level-`m` nonterminal of the C expression
grammar (`E_m ::= E_m op_m E_{m+1} | E_{m+1}`, ten levels, all left-associative: 6.5.5-6.5.14),
with the level table `binPrec` that `Tables.impl_prec_is_c99` ties to `_BINARY_PRECEDENCE` of
`c_parser.py` and to C99.  Operands (cast-expressions) are abstract: `OperandSpec` is the
hypothesis that the operand parser parses each operand (with the fuel `fuel0` bounds); it is
discharged below for identifiers and parenthesised expressions.
-/
namespace PycModel.C02
open PycModel PycModel.Climb PycModel.ClimbSim PycModel.ClimbConcrete PycModel.View

variable {env : Env}

/-- **Binary operators group exactly as the C grammar says.** In every parser state that sees the
in-order tokens of a tree `t` of the level-`m` expression nonterminal followed by a continuation
`k` that does not start with an operand or a binary operator of level `m` or tighter,
`_parse_binary_expression(min_prec = m)` (model: `run F (.binaryExpression m none)`, any fuel
>= 2 * nodes + operand fuel: linear) returns `BinaryOp` nodes nested exactly like `t` - tighter levels deeper, equal levels to
the left - each at the coordinate of its left operand, and leaves exactly `k` unread.
The stream behaviour of `peek` / `advance` is proved (`Proofs/TokenView.lean`), not assumed. -/
theorem binary_operators_group_as_the_grammar_says
    (Op : Nat → Val → List Tk → Nat → Prop) (Follow : List Tk → Prop) (fuel0 N : Nat)
    (hop : OperandSpec env Op Follow)
    (t : BT) (m : Nat) (hwf : WF binPrec m t) (hn : Nodes t)
    (k : List PT) (hk : StopAt binPrec m k) (hkt : ∀ x ∈ k, PTok' x)
    (s : PState) (hs : SeesPT env Op Follow fuel0 N s (t.toks ++ k)) :
    ∀ F, 2 * t.size + fuel0 ≤ F →
      ∃ s', run F (.binaryExpression m none) s = .ok (toVal t) s' ∧ SeesPT env Op Follow fuel0 N s' k :=
  binary_expression_parses_grammar_tree (iface env Op Follow fuel0 N hop) t m hwf hn k hk hkt s hs

/-- the pure algorithm (mirror of the two nested loops) returns the grammar's tree on every
well-formed token list, for every sufficient fuel -/
theorem precedence_climbing_correct (t : BT) (m : Nat) (h : WF binPrec m t) (k : List PT) (hk : StopAt binPrec m k) :
    ∀ f, 2 * t.size ≤ f → climb binPrec f m none (t.toks ++ k) = some (t, k) :=
  climb_correct binPrec t m h k hk

/-- **"the unique tree the C grammar assigns"**: two derivations of the same token list from the
same level are the same tree -/
theorem grammar_tree_unique (t1 t2 : BT) (m : Nat) (h1 : WF binPrec m t1) (h2 : WF binPrec m t2)
    (h : t1.toks = t2.toks) : t1 = t2 :=
  wf_tree_unique binPrec t1 t2 m h1 h2 h

/-- non-vacuity: `a - b * c - d == e` is a level-0 tree, grouped `((a - (b * c)) - d) == e` -/
example (a b c d e : Val) :
    WF binPrec 0
      (.node "EQ" "=="
        (.node "MINUS" "-" (.node "MINUS" "-" (.leaf a) (.node "TIMES" "*" (.leaf b) (.leaf c))) (.leaf d))
        (.leaf e)) := by
  refine .node 0 5 _ _ _ _ (by decide) (by decide) ?_ (.leaf _ _)
  refine .node 5 8 _ _ _ _ (by decide) (by decide) ?_ (.leaf _ _)
  refine .node 8 8 _ _ _ _ (by decide) (by decide) (.leaf _ _) ?_
  exact .node 9 9 _ _ _ _ (by decide) (by decide) (.leaf _ _) (.leaf _ _)


/-! ## end to end: identifiers, parentheses, binary operators -/
open PycModel.OperandId PycModel.ParenExpr

/-- **End to end, nothing assumed.** Every expression `e` of the language
`E ::= identifier | ( E ) | E binop E` - any size, any nesting of parentheses - that the C grammar
derives at level `m`, seen by the parser in any state and followed by a token that is neither a
binary nor a postfix operator, is parsed by `_parse_binary_expression(m)` into exactly the tree the
grammar derives (`E.val`: `BinaryOp` nodes nested by level and left associativity, parentheses
transparent, every `ID` at its own token, every `BinaryOp` at its left operand's coordinate),
consuming exactly the tokens of `e`, with fuel `E.fuel e <= 9 * (number of tokens)`. -/
theorem expressions_parse_as_the_grammar_says (e : E) (m : Nat) (s : PState) (stop : Tk) (rest : List Tk)
    (hwf : WFE m e) (hstop1 : binPrec stop.1 = none) (hstop2 : stop.1 ∉ postfixStarters)
    (hs : SeesT env s (e.flat ++ stop :: rest)) :
    ∀ F, e.fuel ≤ F → ∃ s', run F (.binaryExpression m none) s = .ok (e.val s.idx) s' ∧
      SeesT env s' (stop :: rest) ∧ s'.idx = s.idx + e.ntoks :=
  (parse_ok e).1 m s stop rest hwf hstop1 hstop2 hs

/-- non-vacuity: `(a - b) * (c - (d)) == e ;` from the initial state -/
example : ∀ F, 90 ≤ F → ∃ s',
    run F (.binaryExpression 0 none)
      (initState ([("LPAREN", "("), ("ID", "a"), ("MINUS", "-"), ("ID", "b"), ("RPAREN", ")"), ("TIMES", "*"),
                   ("LPAREN", "("), ("ID", "c"), ("MINUS", "-"), ("LPAREN", "("), ("ID", "d"), ("RPAREN", ")"),
                   ("RPAREN", ")"), ("EQ", "=="), ("ID", "e"), ("SEMI", ";")].map (fun t => SEv.tok t.1 t.2) ++ [.eof]))
      = .ok (mk .BinaryOp (some ⟨"", 1, some 2⟩) [.str "==",
              mk .BinaryOp (some ⟨"", 1, some 2⟩) [.str "*",
                mk .BinaryOp (some ⟨"", 1, some 2⟩) [.str "-", ParenExpr.idNode 1 "a", ParenExpr.idNode 3 "b"],
                mk .BinaryOp (some ⟨"", 7, some 8⟩) [.str "-", ParenExpr.idNode 7 "c", ParenExpr.idNode 10 "d"]],
              ParenExpr.idNode 14 "e"]) s' ∧ (∃ env, SeesT env s' [("SEMI", ";")]) := by
  let e : E := .bin "EQ" "=="
    (.bin "TIMES" "*" (.paren (.bin "MINUS" "-" (.id "a") (.id "b")))
                      (.paren (.bin "MINUS" "-" (.id "c") (.paren (.id "d")))))
    (.id "e")
  have hwf : WFE 0 e := by
    refine .bin 0 5 _ _ _ _ (by decide) (by decide) ?_ (.id _ _)
    refine .bin 5 9 _ _ _ _ (by decide) (by decide) (.paren _ _ ?_) (.paren _ _ ?_)
    · exact .bin 0 8 _ _ _ _ (by decide) (by decide) (.id _ _) (.id _ _)
    · exact .bin 0 8 _ _ _ _ (by decide) (by decide) (.id _ _) (.paren _ _ (.id _ _))
  have hs := ParenExpr.seesT_init [("LPAREN", "("), ("ID", "a"), ("MINUS", "-"), ("ID", "b"), ("RPAREN", ")"), ("TIMES", "*"),
    ("LPAREN", "("), ("ID", "c"), ("MINUS", "-"), ("LPAREN", "("), ("ID", "d"), ("RPAREN", ")"),
    ("RPAREN", ")"), ("EQ", "=="), ("ID", "e"), ("SEMI", ";")]
  intro F hF
  obtain ⟨s', hr, hs', _⟩ := expressions_parse_as_the_grammar_says e 0 _ ("SEMI", ";") [] hwf (by decide) (by decide) hs F
    (Nat.le_trans (by decide) hF)
  exact ⟨s', hr, _, hs'⟩

/-! ## the whole expression grammar, with casts and `sizeof ( type-name )` -/
open PycModel.FullExpr in
/-- **Expressions parse exactly as the C grammar derives them** (6.5.1-6.5.17): for every
expression `e` of
`X ::= identifier | constant | ( X ) | X ++ | X -- | X [ X ] | X . name | X -> name | X ( ) | X ( X , ... ) |
       ++ X | -- X | & X | * X | + X | - X | ~ X | ! X | sizeof X | ( T ) X | sizeof ( T ) |
       X binop X | X ? X : X | X assign-op X | X , X`
with the type names `T ::= {qualifier | type keyword | typedef name}+ {* qualifier...}` of
`Proofs/TypeName.lean` (`unsigned char`, `const char * *`, `T *` for a typedef name `T` of the
environment - then and only then is `( T ) x` a cast), of any size and nesting, that is derivable at
the comma level (`WFX 0 e`: postfix operators bind tightest and apply left to right, `& * + - ~ !`
and casts apply to a cast-expression - **a chain of casts nests to the right**, `(A)(B)x` is
`Cast(A, Cast(B, x))` -, `++`, `--` and `sizeof` to a unary expression (not to a cast),
binary operators group by their ten levels and to the left, `?:` and assignment to the right with
a unary expression left of `=`, a full comma expression between `?` and `:`, comma loosest), from
every parser state that sees its tokens followed by a token that cannot continue an expression,
`_parse_expression` returns `e.val` (`UnaryOp` / `ArrayRef` / `StructRef` / `FuncCall` / `Cast` / `BinaryOp` /
`TernaryOp` / `Assignment` / `ExprList` nodes nested as derived, the `Typename` of a cast with its
`PtrDecl` chain, qualifiers and specifier names as `_parse_type_name` and `_fix_decl_name_type` build them, postfix `++` spelled `p++`, comma
operands and call arguments flattened into one `ExprList`, parentheses transparent) and consumes
exactly the tokens of `e`; fuel `<= 13 * tokens`.
Nothing is assumed about the parser: `peek`/`advance`/`reset` behave as a token stream by
`Proofs/TokenView.lean`, every production on the way is executed symbolically - the speculative
`_try_parse_paren_type_name` with its mark and reset included.  Not covered: compound literals,
`_Alignof`, `offsetof`, type names with array / function parts or struct / enum specifiers, and
string literals. -/
theorem expression_skeleton_parses_as_the_grammar_says (e : X) (hwf : WFX 0 e) (s : PState)
    (stop : Tk) (rest : List Tk) (hstop : StopX stop.1) (hs : SeesT env s (e.flat ++ stop :: rest))
    (F : Nat) (hF : 13 * e.ntoks ≤ F) :
    ∃ s', run F .expression s = .ok (e.val s.idx) s' ∧ SeesT env s' (stop :: rest) ∧ s'.idx = s.idx + e.ntoks :=
  parse_full e hwf s stop rest hstop hs F (Nat.le_trans (FullExpr.fuel_linear e) hF)

open PycModel.FullExpr PycModel.View PycModel.TypeName in
/-- non-vacuity, casts: `( unsigned char ) ( const int * ) - p + sizeof ( T * ) ;` with `T` a typedef
name: the first cast is the outermost, casts bind tighter than `+`, `sizeof ( T * )` takes a type -/
example : ∃ env s s', SeesT env s ([("LPAREN", "("), ("UNSIGNED", "unsigned"), ("CHAR", "char"), ("RPAREN", ")"),
      ("LPAREN", "("), ("CONST", "const"), ("INT", "int"), ("TIMES", "*"), ("RPAREN", ")"), ("MINUS", "-"), ("ID", "p"),
      ("PLUS", "+"), ("SIZEOF", "sizeof"), ("LPAREN", "("), ("TYPEID", "T"), ("TIMES", "*"), ("RPAREN", ")"), ("SEMI", ";")]) ∧
    s.idx = 0 ∧
    run 400 .expression s
      = .ok (mk .BinaryOp (tc 0) [.str "+",
              mk .Cast (tc 0) [
                mk .Typename (tc 1) [.none, .list [], .none,
                  mk .TypeDecl none [.none, .list [], .none, mk .IdentifierType (tc 1) [.list [.str "unsigned", .str "char"]]]],
                mk .Cast (tc 4) [
                  mk .Typename (tc 7) [.none, .list [.str "const"], .none,
                    mk .PtrDecl (tc 7) [.list [],
                      mk .TypeDecl none [.none, .list [.str "const"], .none, mk .IdentifierType (tc 6) [.list [.str "int"]]]]],
                  mk .UnaryOp (tc 10) [.str "-", ParenExpr.idNode 10 "p"]]],
              mk .UnaryOp (tc 12) [.str "sizeof",
                mk .Typename (tc 15) [.none, .list [], .none,
                  mk .PtrDecl (tc 15) [.list [],
                    mk .TypeDecl none [.none, .list [], .none, mk .IdentifierType (tc 14) [.list [.str "T"]]]]]]]) s' := by
  let tA : TN := { specs := [("UNSIGNED", "unsigned"), ("CHAR", "char")], stars := [] }
  let tB : TN := { specs := [("CONST", "const"), ("INT", "int")], stars := [[]] }
  let tC : TN := { specs := [("TYPEID", "T")], stars := [[]] }
  let e : X := .bin "PLUS" "+" (.cast tA (.cast tB (.pre "MINUS" "-" (.id "p")))) (.szofT tC)
  have hA : WFTN tA := ⟨by simp [tA, SqToks, typeSpecSimple, isTypeTok], rfl, by intro q h; cases h⟩
  have hB : WFTN tB := ⟨by simp [tB, SqToks, TypeName.quals3, typeSpecSimple, isTypeTok], rfl,
    by intro q h t ht; simp only [tB, List.mem_singleton] at h; subst h; cases ht⟩
  have hC : WFTN tC := ⟨by simp [tC, SqToks], rfl,
    by intro q h t ht; simp only [tC, List.mem_singleton] at h; subst h; cases ht⟩
  have hwf : WFX 0 e := by
    refine .bin _ 8 _ _ _ _ (by decide) (by omega) ?_ (.szofT _ _ (by omega) hC)
    exact .cast _ _ _ (by omega) hA (.cast _ _ _ (by omega) hB (.pre _ _ _ _ (by omega) (by decide) (.id _ _) (by intro h; revert h; decide)))
  -- a start state in which `T` is a typedef name of the file scope; the lexer hands `T` out as an `ID`,
  -- the token stream classifies it
  have hs := ParenExpr.seesT_typedef1 "T" [("LPAREN", "("), ("UNSIGNED", "unsigned"), ("CHAR", "char"), ("RPAREN", ")"),
      ("LPAREN", "("), ("CONST", "const"), ("INT", "int"), ("TIMES", "*"), ("RPAREN", ")"), ("MINUS", "-"), ("ID", "p"),
      ("PLUS", "+"), ("SIZEOF", "sizeof"), ("LPAREN", "("), ("ID", "T"), ("TIMES", "*"), ("RPAREN", ")"), ("SEMI", ";")]
  have hstop : StopX ("SEMI", ";").1 := ⟨⟨⟨⟨by decide, by decide⟩, by decide⟩, by decide⟩, by decide⟩
  obtain ⟨s', hr, _, _⟩ := parse_full e hwf _ ("SEMI", ";") [] hstop hs 400 (by decide)
  exact ⟨_, _, s', hs, rfl, hr⟩

end PycModel.C02
