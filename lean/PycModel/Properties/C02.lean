import PycModel.Properties.Tables
import PycModel.Proofs.ClimbConcrete
import PycModel.Proofs.OperandId
/-!
# C02 — expression ASTs follow C precedence, associativity and operator binding

Specification: `Spec/Expr.lean` (`Expr`, `render`, `toVal`).  Full statement (kept visible):
for every expression tree `e`, every admissible decoration `d` and every expression context,
the parser model returns `e.toVal` on `render q e d`.  Table obligations: `Properties/Tables.lean`.

Proved here, for trees of any size and depth: the **binary-operator layer** of that statement.
`Climb.WF binPrec m t` says `t` is derivable from the level-`m` nonterminal of the C expression
grammar (`E_m ::= E_m op_m E_{m+1} | E_{m+1}`, ten levels, all left-associative: 6.5.5-6.5.14),
with the level table `binPrec` that `Tables.impl_prec_is_c99` ties to `_BINARY_PRECEDENCE` of
`c_parser.py` and to C99.  Operands (cast-expressions) are abstract: `OperandSpec` is the
hypothesis that the operand parser parses each operand.
-/
namespace PycModel.C02
open PycModel PycModel.Climb PycModel.ClimbSim PycModel.ClimbConcrete PycModel.View

/-- **Binary operators group exactly as the C grammar says.** In every parser state that sees the
in-order tokens of a tree `t` of the level-`m` expression nonterminal followed by a continuation
`k` that does not start with an operand or a binary operator of level `m` or tighter,
`_parse_binary_expression(min_prec = m)` (model: `run F (.binaryExpression m none)`, any sufficient
fuel) returns `BinaryOp` nodes nested exactly like `t` - tighter levels deeper, equal levels to
the left - each at the coordinate of its left operand, and leaves exactly `k` unread.
The stream behaviour of `peek` / `advance` is proved (`Proofs/TokenView.lean`), not assumed. -/
theorem binary_operators_group_as_the_grammar_says
    (Op : Nat → Val → List Tk → Prop) (Follow : List Tk → Prop) (fuel0 : Nat)
    (hop : OperandSpec Op Follow fuel0)
    (t : BT) (m : Nat) (hwf : WF binPrec m t) (hn : Nodes t)
    (k : List PT) (hk : StopAt binPrec m k) (hkt : ∀ x ∈ k, PTok' x)
    (s : PState) (hs : SeesPT Op Follow s (t.toks ++ k)) :
    ∃ F0, ∀ F, F0 ≤ F → ∃ s', run F (.binaryExpression m none) s = .ok (toVal t) s' ∧ SeesPT Op Follow s' k :=
  binary_expression_parses_grammar_tree (iface Op Follow fuel0 hop) t m hwf hn k hk hkt s hs

/-- the pure algorithm (mirror of the two nested loops) returns the grammar's tree on every
well-formed token list, for every sufficient fuel -/
theorem precedence_climbing_correct (t : BT) (m : Nat) (h : WF binPrec m t) (k : List PT) (hk : StopAt binPrec m k) :
    ∃ f0, ∀ f, f0 ≤ f → climb binPrec f m none (t.toks ++ k) = some (t, k) :=
  climb_correct binPrec t m h k hk

/-- **"the unique tree the C grammar assigns"**: two derivations of the same token list from the
same level are the same tree -/
theorem grammar_tree_unique (t1 t2 : BT) (m : Nat) (h1 : WF binPrec m t1) (h2 : WF binPrec m t2)
    (h : t1.toks = t2.toks) : t1 = t2 :=
  wf_tree_unique binPrec t1 t2 m h1 h2 h

/-- non-vacuity: `a - b * c - d == e` is a level-0 tree, grouped `((a - (b * c)) - d) == e` -/
example (a b c d e : Val) :
    WF binPrec 0
      (.node "EQ" "=="
        (.node "MINUS" "-" (.node "MINUS" "-" (.leaf a) (.node "TIMES" "*" (.leaf b) (.leaf c))) (.leaf d))
        (.leaf e)) := by
  refine .node 0 5 _ _ _ _ (by decide) (by decide) ?_ (.leaf _ _)
  refine .node 5 8 _ _ _ _ (by decide) (by decide) ?_ (.leaf _ _)
  refine .node 8 8 _ _ _ _ (by decide) (by decide) (.leaf _ _) ?_
  exact .node 9 9 _ _ _ _ (by decide) (by decide) (.leaf _ _) (.leaf _ _)


/-! ## the operand hypothesis is satisfiable: identifiers -/
open PycModel.OperandId

/-- **End to end.** Expressions built from identifiers and binary operators, of any size and
nesting, parse to exactly the tree the grammar derives - from any state that sees them followed
by a token that is neither a binary nor a postfix operator; no hypothesis about operands is left.
(`OperandId.identifier_expressions_parse`, restated where the property theorems live.) -/
theorem identifier_expressions_parse_as_the_grammar_says (e : IT) (m : Nat) (s : PState)
    (hwf : WF binPrec m (e.toBT s.idx)) (stop : Tk) (hstop1 : binPrec stop.1 = none)
    (hstop2 : stop.1 ∉ postfixStarters) (rest : List Tk) (hs : SeesT s (e.flat ++ stop :: rest)) :
    ∃ F0, ∀ F, F0 ≤ F → ∃ s', run F (.binaryExpression m none) s = .ok (toVal (e.toBT s.idx)) s' ∧
      SeesT s' (stop :: rest) :=
  identifier_expressions_parse e m s hwf stop hstop1 hstop2 rest hs

/-- non-vacuity of the end-to-end statement: `a - b * c - d == e ;` from the initial state -/
example : ∃ F0, ∀ F, F0 ≤ F → ∃ s',
    run F (.binaryExpression 0 none)
      (initState ([("ID", "a"), ("MINUS", "-"), ("ID", "b"), ("TIMES", "*"), ("ID", "c"), ("MINUS", "-"),
                   ("ID", "d"), ("EQ", "=="), ("ID", "e"), ("SEMI", ";")].map (fun t => SEv.tok t.1 t.2) ++ [.eof]))
      = .ok (mk .BinaryOp (some ⟨"", 0, some 1⟩) [.str "==",
              mk .BinaryOp (some ⟨"", 0, some 1⟩) [.str "-",
                mk .BinaryOp (some ⟨"", 0, some 1⟩) [.str "-", idNode 0 "a",
                  mk .BinaryOp (some ⟨"", 2, some 3⟩) [.str "*", idNode 2 "b", idNode 4 "c"]],
                idNode 6 "d"],
              idNode 8 "e"]) s' ∧ SeesT s' [("SEMI", ";")] := by
  let e : IT := .node "EQ" "=="
    (.node "MINUS" "-" (.node "MINUS" "-" (.leaf "a") (.node "TIMES" "*" (.leaf "b") (.leaf "c"))) (.leaf "d"))
    (.leaf "e")
  have hwf : WF binPrec 0 (e.toBT 0) := by
    refine .node 0 5 _ _ _ _ (by decide) (by decide) ?_ (.leaf _ _)
    refine .node 5 8 _ _ _ _ (by decide) (by decide) ?_ (.leaf _ _)
    refine .node 8 8 _ _ _ _ (by decide) (by decide) (.leaf _ _) ?_
    exact .node 9 9 _ _ _ _ (by decide) (by decide) (.leaf _ _) (.leaf _ _)
  have hs := seesT_init [("ID", "a"), ("MINUS", "-"), ("ID", "b"), ("TIMES", "*"), ("ID", "c"), ("MINUS", "-"),
    ("ID", "d"), ("EQ", "=="), ("ID", "e"), ("SEMI", ";")] (by decide)
  exact identifier_expressions_parse e 0 _ hwf ("SEMI", ";") (by decide) (by decide) [] hs

end PycModel.C02
