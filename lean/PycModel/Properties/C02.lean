import PycModel.Properties.Tables
/-!
# C02 — expression ASTs follow C precedence, associativity and operator binding

Specification: `Spec/Expr.lean` (`Expr`, `render`, `toVal`).  Full statement (kept visible):
for every expression tree `e`, every admissible decoration `d` and every expression context,
the parser model returns `e.toVal` on `render q e d`.  Table obligations: `Properties/Tables.lean`.
-/
namespace PycModel.C02
open PycModel

end PycModel.C02
