import PycModel.Instance
import PycModel.Generated.StateInventory
/-!
# C12 — a parser's result depends only on (text, filename), never on its history
-/
namespace PycModel.C12
open PycModel

/-- `parse()` overwrites every field of the instance state -/
theorem reinit_forgets (a b : PState) (evs : List SEv) : reinit a evs = reinit b evs := by
  cases a; cases b; simp [reinit]

/-- **history independence**: whatever state earlier calls (successful or failing, with scopes left
open or typedef names registered) left behind, the next call returns what a fresh instance returns -/
theorem parse_history_indep (cfg : LexCfg) (fuel : Nat) (i j : PState) (t f : String) :
    (parseCall cfg fuel i t f).1 = (parseCall cfg fuel j t f).1 := by
  simp only [parseCall, reinit_forgets i j]

/-- the n-th result of any sequence of calls equals the result of that call alone on any other
instance (in particular a brand-new one) -/
theorem nth_call_eq_fresh (cfg : LexCfg) (fuel : Nat) (fresh : PState) :
    ∀ (calls : List (String × String)) (inst : PState),
      runCalls cfg fuel inst calls = calls.map fun c => (parseCall cfg fuel fresh c.1 c.2).1 := by
  intro calls
  induction calls with
  | nil => intro inst; simp [runCalls]
  | cons c rest ih =>
    intro inst
    obtain ⟨t, f⟩ := c
    simp only [runCalls, List.map_cons]
    rw [ih]
    rw [parse_history_indep cfg fuel inst fresh]

/-- parsing the same text twice gives equal results -/
theorem same_text_twice (cfg : LexCfg) (fuel : Nat) (inst : PState) (t f : String) :
    runCalls cfg fuel inst [(t, f), (t, f)] =
      [(parseCall cfg fuel inst t f).1, (parseCall cfg fuel inst t f).1] := by
  simp only [runCalls]
  rw [parse_history_indep cfg fuel (parseCall cfg fuel inst t f).2 inst]

/-- obligation: the model's instance state is *all* the state — every instance attribute the live
classes ever hold (fresh, after success, after failure) is one the model accounts for -/
def modelFieldsCParser : List String := ["_scope_stack", "_tokens", "clex"]
def modelFieldsCLexer : List String :=
  ["_filename", "_lexdata", "_line_start", "_lineno", "_pending_tok", "_pos",
   "error_func", "on_lbrace_func", "on_rbrace_func", "type_lookup_func"]
def modelFieldsTokenStream : List String := ["_buffer", "_index", "_lexer"]
def modelFieldsCGenerator : List String := ["indent_level", "reduce_parentheses"]

theorem impl_fields_accounted :
    (Generated.fieldsCParser.all modelFieldsCParser.contains &&
     Generated.fieldsCLexer.all modelFieldsCLexer.contains &&
     Generated.fieldsTokenStream.all modelFieldsTokenStream.contains &&
     Generated.fieldsCGenerator.all modelFieldsCGenerator.contains) = true := by decide

end PycModel.C12
