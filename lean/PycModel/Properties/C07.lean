import PycModel.Generator
import PycModel.Properties.TablesPrec
import PycModel.Properties.TablesGen
import PycModel.Proofs.GenParen
/-!
# C07 — generated C re-parses to the same AST

Table obligations (`Tables`): the generator's precedence map is the parser's; the model's copy
of both is the code's.  Generator model: `Generator.lean`.
-/
namespace PycModel.C07
open PycModel


/-! ## the binary-operator layer of the round trip, for trees of any shape -/
open PycModel.Climb PycModel.ClimbSim PycModel.GenParen

/-- **What `visit_BinaryOp` prints is parsed back to the same tree.** For every tree of binary
operators (any shape and depth; operands arbitrary), with and without `reduce_parentheses`: the
tokens the generator's parenthesisation rule emits - a wrapped operand being one operand for the
parser - are grouped by the precedence-climbing algorithm (which `C02` proves the parser model
runs) into a tree whose AST is the original one.  The level table is the parser's `binPrec`;
`TablesG.impl_gen_prec_is_parser_prec` ties the generator's `precedence_map` to it. -/
theorem binary_parenthesisation_sufficient (rp : Bool) (t : BT) (h : AllOps binPrec t)
    (k : List PT) (hk : StopAt binPrec 0 k) :
    ∀ f, 2 * (genP binPrec rp t).size ≤ f →
      ∃ t', climb binPrec f 0 none ((genP binPrec rp t).toks ++ k) = some (t', k) ∧ toVal t' = toVal t :=
  generated_reparses binPrec rp t h k hk

/-- non-vacuity and necessity: `a - (b - c)` keeps its parentheses (the right operand of equal
level is wrapped), `(a - b) - c` loses them under `reduce_parentheses` and keeps them without -/
example (a b c : Val) :
    genP binPrec true (.node "MINUS" "-" (.leaf a) (.node "MINUS" "-" (.leaf b) (.leaf c)))
      = .node "MINUS" "-" (.leaf a) (.leaf (toVal (.node "MINUS" "-" (.leaf b) (.leaf c)))) ∧
    genP binPrec true (.node "MINUS" "-" (.node "MINUS" "-" (.leaf a) (.leaf b)) (.leaf c))
      = .node "MINUS" "-" (.node "MINUS" "-" (.leaf a) (.leaf b)) (.leaf c) ∧
    genP binPrec false (.node "MINUS" "-" (.node "MINUS" "-" (.leaf a) (.leaf b)) (.leaf c))
      = .node "MINUS" "-" (.leaf (toVal (.node "MINUS" "-" (.leaf a) (.leaf b)))) (.leaf c) := by
  refine ⟨?_, ?_, ?_⟩ <;> simp [genP, bareL, bareR, binPrec, binaryPrecedence, toVal]

end PycModel.C07
