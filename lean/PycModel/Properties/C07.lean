import PycModel.Generator
import PycModel.Properties.Tables
import PycModel.Properties.TablesGen
/-!
# C07 — generated C re-parses to the same AST

Table obligations (`Tables`): the generator's precedence map is the parser's; the model's copy
of both is the code's.  Generator model: `Generator.lean`.
-/
namespace PycModel.C07
open PycModel

end PycModel.C07
