import PycModel.Generator
import PycModel.Properties.TablesPrec
import PycModel.Properties.TablesGen
import PycModel.Proofs.GenParen
import PycModel.Proofs.GenExpr
/-!
# C07 — generated C re-parses to the same AST

Table obligations (`Tables`): the generator's precedence map is the parser's; the model's copy
of both is the code's.  Generator model: `Generator.lean`.
-/
namespace PycModel.C07
open PycModel


/-! ## the binary-operator layer of the round trip, for trees of any shape -/
open PycModel.Climb PycModel.ClimbSim PycModel.GenParen

/-- **What `visit_BinaryOp` prints is parsed back to the same tree.** For every tree of binary
operators (any shape and depth; operands arbitrary), with and without `reduce_parentheses`: the
tokens the generator's parenthesisation rule emits - a wrapped operand being one operand for the
parser - are grouped by the precedence-climbing algorithm (which `C02` proves the parser model
runs) into a tree whose AST is the original one.  The level table is the parser's `binPrec`;
`TablesG.impl_gen_prec_is_parser_prec` ties the generator's `precedence_map` to it. -/
theorem binary_parenthesisation_sufficient (rp : Bool) (t : BT) (h : AllOps binPrec t)
    (k : List PT) (hk : StopAt binPrec 0 k) :
    ∀ f, 2 * (genP binPrec rp t).size ≤ f →
      ∃ t', climb binPrec f 0 none ((genP binPrec rp t).toks ++ k) = some (t', k) ∧ toVal t' = toVal t :=
  generated_reparses binPrec rp t h k hk

/-- non-vacuity and necessity: `a - (b - c)` keeps its parentheses (the right operand of equal
level is wrapped), `(a - b) - c` loses them under `reduce_parentheses` and keeps them without -/
example (a b c : Val) :
    genP binPrec true (.node "MINUS" "-" (.leaf a) (.node "MINUS" "-" (.leaf b) (.leaf c)))
      = .node "MINUS" "-" (.leaf a) (.leaf (toVal (.node "MINUS" "-" (.leaf b) (.leaf c)))) ∧
    genP binPrec true (.node "MINUS" "-" (.node "MINUS" "-" (.leaf a) (.leaf b)) (.leaf c))
      = .node "MINUS" "-" (.node "MINUS" "-" (.leaf a) (.leaf b)) (.leaf c) ∧
    genP binPrec false (.node "MINUS" "-" (.node "MINUS" "-" (.leaf a) (.leaf b)) (.leaf c))
      = .node "MINUS" "-" (.leaf (toVal (.node "MINUS" "-" (.leaf a) (.leaf b)))) (.leaf c) := by
  refine ⟨?_, ?_, ?_⟩ <;> simp [genP, bareL, bareR, binPrec, binaryPrecedence, toVal]

/-! ## every expression form: what the generator prints is parsed back to the AST it was given -/
open PycModel.FullExpr PycModel.GenExpr PycModel.View in
/-- **Round trip of expressions, all forms, any size.**  `a`: an expression AST made of identifiers,
constants, prefix / postfix operators, `sizeof`, subscripts, member accesses, calls, binary operators,
`?:`, assignments, comma lists, casts, `sizeof` / `_Alignof` of type names (`WFA`: operators from the
tables, constants typed by their spelling, an assignment's left side not itself a binary or conditional
expression).  `GenExpr.G rp a`: the tokens `CGenerator` prints for it with `reduce_parentheses = rp`
(`Proofs/GenExpr.lean`, compared with the real generator's text on every expression of the pool).
From every state that sees these tokens followed by a token that cannot continue an expression,
`_parse_expression` accepts them, consumes exactly them, and returns a tree that is, coordinates
erased, the AST the generator was given. -/
theorem generated_expression_reparses {env : Env} (rp : Bool) (a : A) (hw : WFA a)
    (s : PState) (stop : Tk) (rest : List Tk) (hstop : StopX stop.1)
    (hs : SeesT env s ((GenExpr.G rp a).flat ++ stop :: rest)) (F : Nat) (hF : (GenExpr.G rp a).fuel ≤ F) :
    ∃ v s', run F .expression s = .ok v s' ∧ C17.erase v = a.shape ∧ SeesT env s' (stop :: rest) ∧
      s'.idx = s.idx + (GenExpr.G rp a).ntoks := by
  obtain ⟨s', hr, hs', hi⟩ := parse_full (GenExpr.G rp a) ((wf_G rp a hw).weaken (Nat.zero_le _)) s stop rest hstop hs F hF
  exact ⟨_, s', hr, shape_G rp a hw s.idx, hs', hi⟩

open PycModel.GenExpr PycModel.FullExpr in
/-- non-vacuity: `a = (b , c) ? - (- d) : x [ i ] . f ( 1 ) ++` as an AST: the hypotheses hold and the
printed tokens are `a = ( ( b , c ) ) ? ( - ( - d ) ) : ( x [ i ] . f ( 1 ) ++ )` -/
example :
    let a : A := .assign "EQUALS" "=" (.id "a")
      (.cond (.comma (.id "b") (.cons (.id "c") .nil))
        (.pre "MINUS" "-" (.pre "MINUS" "-" (.id "d")))
        (.post "PLUSPLUS" "++" (.call (.member "PERIOD" "." (.index (.id "x") (.id "i")) "f")
          (.cons (.const "INT_CONST_DEC" "1" "int") .nil))))
    WFA a ∧ ((GenExpr.G true a).flat.map (·.2)) =
      ["a", "=", "(", "(", "b", ",", "c", ")", ")", "?", "(", "-", "(", "-", "d", ")", ")", ":",
       "(", "x", "[", "i", "]", ".", "f", "(", "1", ")", "++", ")"] := by
  refine ⟨?_, by decide⟩
  simp [WFA, WFAL, A.isBin, A.isCond]
  decide

end PycModel.C07
