import PycModel.Proofs.LexerTotal
import PycModel.Proofs.LexerPos
import PycModel.Spec.Tokens
import PycModel.Generated.LexTables
/-!
# C09 — tokenisation is lossless, longest-match and position-exact

Property theorems only; helper lemmas live in `Proofs/`.  The general theorems are stated for
every configuration satisfying a decidable condition; the obligations `impl_*` instantiate them
with the tables regenerated from `/repo`'s current `c_lexer.py`.
-/
namespace PycModel.C09
open PycModel

/-- obligation: the regenerated rule table and fixed-token buckets are well formed -/
theorem impl_lex_wf : Generated.lexCfg.wf = true := by decide +kernel

/-- obligation: the master regex is exactly the ordered alternation of the rule table and the
action table agrees with it (so that `matchMaster` is `_regex_master.match` + `lastgroup`) -/
theorem impl_master_is_rules :
    Generated.masterIsRuleAlternation = true ∧ Generated.actionsMatchRules = true := by decide

/-- obligation: the keyword map is exactly the standard's keyword list (+ documented extensions) -/
theorem impl_keywords : Spec.sameSet2 Generated.keywords Spec.keywords = true := by decide +kernel

/-- obligation: the fixed tokens are exactly the C99 punctuators -/
theorem impl_punctuators :
    Spec.sameSet (Generated.fixedTokens.map (·.2)) Spec.punctuators = true := by decide +kernel

/-- **Progress / termination, all texts**: the scanner finishes on every input and never spins
(the `stuck` event models a zero-length token, on which the Python loop would not advance). -/
theorem scan_terminates_never_stuck (isType : String → Bool) (text : List Char) (file : String) :
    Ev.stuck ∉ scan Generated.lexCfg isType text file :=
  scan_no_stuck impl_lex_wf isType text file


/-! ## position exactness -/
open LexPos in
/-- **Position-exact, all texts.** Every token the scanner returns before its first error report
(i) has as value exactly the characters of the text at its offset, (ii) has the column of that
offset counted from the character after the last preceding newline, (iii) has the line number
"base line + newlines since the base offset", where the base is line 1 at offset 0 or what the
most recent obeyed `#line` / linemarker directive established (`baseFrom`). -/
theorem scan_position_exact (isType : String → Bool) (text : List Char) (file : String)
    (pre : List Ev) (t : Token) (off : Nat) (f : String) (post : List Ev)
    (h : scan Generated.lexCfg isType text file = pre ++ .tok t off f :: post)
    (hpre : ∀ e ∈ pre, isErr e = false) :
    Exact text (baseFrom (1, 0) pre).1 (baseFrom (1, 0) pre).2 t off :=
  scanLoop_exact impl_lex_wf isType text _ _ 1 0 (inv_init text file) pre t off f post h hpre

open LexPos in
/-- corollary without directives: line = 1 + number of newlines before the token, and the value
is the text at the offset -/
theorem scan_line_is_newline_count (isType : String → Bool) (text : List Char) (file : String)
    (pre : List Ev) (t : Token) (off : Nat) (f : String) (post : List Ev)
    (h : scan Generated.lexCfg isType text file = pre ++ .tok t off f :: post)
    (hpre : ∀ e ∈ pre, isErr e = false) (hnd : ∀ e ∈ pre, ∀ n x, e ≠ .dir n x) :
    t.line = 1 + (text.take off).count '\n' ∧ (text.drop off).take t.val.length = t.val.toList := by
  have hx := scan_position_exact isType text file pre t off f post h hpre
  rw [baseFrom_clean _ _ hnd] at hx
  refine ⟨?_, hx.spelling⟩
  have := hx.line.2
  simpa [seg, nlCount] using this

end PycModel.C09
