import PycModel.Proofs.LexerTotal
import PycModel.Spec.Tokens
import PycModel.Generated.LexTables
/-!
# C09 — tokenisation is lossless, longest-match and position-exact

Property theorems only; helper lemmas live in `Proofs/`.  The general theorems are stated for
every configuration satisfying a decidable condition; the obligations `impl_*` instantiate them
with the tables regenerated from `/repo`'s current `c_lexer.py`.
-/
namespace PycModel.C09
open PycModel

/-- obligation: the regenerated rule table and fixed-token buckets are well formed -/
theorem impl_lex_wf : Generated.lexCfg.wf = true := by decide +kernel

/-- obligation: the master regex is exactly the ordered alternation of the rule table and the
action table agrees with it (so that `matchMaster` is `_regex_master.match` + `lastgroup`) -/
theorem impl_master_is_rules :
    Generated.masterIsRuleAlternation = true ∧ Generated.actionsMatchRules = true := by decide

/-- obligation: the keyword map is exactly the standard's keyword list (+ documented extensions) -/
theorem impl_keywords : Spec.sameSet2 Generated.keywords Spec.keywords = true := by decide +kernel

/-- obligation: the fixed tokens are exactly the C99 punctuators -/
theorem impl_punctuators :
    Spec.sameSet (Generated.fixedTokens.map (·.2)) Spec.punctuators = true := by decide +kernel

/-- **Progress / termination, all texts**: the scanner finishes on every input and never spins
(the `stuck` event models a zero-length token, on which the Python loop would not advance). -/
theorem scan_terminates_never_stuck (isType : String → Bool) (text : List Char) (file : String) :
    Ev.stuck ∉ scan Generated.lexCfg isType text file :=
  scan_no_stuck impl_lex_wf isType text file

end PycModel.C09
