import PycModel.Parser.Stmt
import PycModel.Proofs.ParenExpr
/-!
# C17 — the AST (minus coordinates) depends only on the token sequence

The parser model is factored as `finish ∘ parseCore ∘ strip`: `parseCore` receives only the
classes and spellings of the tokens (`SEv`), never a position, a file name or a directive.
-/
namespace PycModel.C17
open PycModel

mutual
/-- drop every coordinate -/
def erase : Val → Val
  | .none => .none
  | .str s => .str s
  | .list vs => .list (eraseL vs)
  | .node c _ fs => .node c none (eraseL fs)
def eraseL : List Val → List Val
  | [] => []
  | v :: vs => erase v :: eraseL vs
end

mutual
theorem erase_mapCoords (f : Coord → Coord) : ∀ v : Val, erase (v.mapCoords f) = erase v
  | .none => by simp [Val.mapCoords, erase]
  | .str s => by simp [Val.mapCoords, erase]
  | .list vs => by simp [Val.mapCoords, erase, eraseL_mapCoords f vs]
  | .node c co fs => by simp [Val.mapCoords, erase, eraseL_mapCoords f fs]
theorem eraseL_mapCoords (f : Coord → Coord) : ∀ vs : List Val, eraseL (Val.mapCoordsL f vs) = eraseL vs
  | [] => by simp [Val.mapCoordsL, eraseL]
  | v :: vs => by simp [Val.mapCoordsL, eraseL, erase_mapCoords f v, eraseL_mapCoords f vs]
end

/-- what the property observes of an outcome: the coordinate-free tree, or the bare fact of rejection -/
def obs : Outcome → Option Val
  | .ast v => some (erase v)
  | _ => none

def obsCore : CoreOutcome → Option Val
  | .ast v => some (erase v)
  | _ => none

theorem obs_finish (inf : Array EvInfo) (f : String) (r : CoreOutcome) :
    obs (finish inf f r) = obsCore r := by
  cases r <;> simp [finish, obs, obsCore, erase_mapCoords]

/-- **Layout independence, all event streams**: two lexer event streams that carry the same
sequence of token classes and spellings (whatever the positions, file names, `#line` directives,
and the file name passed to `parse`) give the same coordinate-free AST — or are both rejected. -/
theorem layout_independence (fuel : Nat) (evs₁ evs₂ : List Ev) (file₁ file₂ : String)
    (h : strip evs₁ = strip evs₂) :
    obs (parseEvents fuel evs₁ file₁).1 = obs (parseEvents fuel evs₂ file₂).1 := by
  simp [parseEvents, obs_finish, h]

/-- in particular for two texts whose scans agree on classes and spellings -/
theorem layout_independence_text (cfg : LexCfg) (fuel : Nat) (t₁ t₂ f₁ f₂ : String)
    (h : strip (scan cfg (fun _ => false) t₁.toList f₁) = strip (scan cfg (fun _ => false) t₂.toList f₂)) :
    obs (parseText cfg fuel t₁ f₁).1 = obs (parseText cfg fuel t₂ f₂).1 := by
  simp only [parseText]
  exact layout_independence fuel _ _ f₁ f₂ h

/-! ## redundant parentheses -/
open PycModel.ParenExpr PycModel.View PycModel.OperandId in
/-- **Wrapping an expression in redundant parentheses changes nothing but coordinates** - for
every expression of identifiers, parentheses and binary operators, of any size: what the parser
model returns for `( e )` and for `e` (from any two states that see them) are the same tree once
coordinates are erased. -/
theorem redundant_parentheses_change_only_coordinates (e : E) (m : Nat) (hwf0 : WFE 0 e) (hwf : WFE m e)
    (s1 s2 : PState) (stop : Tk) (rest1 rest2 : List Tk)
    (hstop1 : binPrec stop.1 = none) (hstop2 : stop.1 ∉ postfixStarters)
    (h1 : SeesT s1 ((E.paren e).flat ++ stop :: rest1)) (h2 : SeesT s2 (e.flat ++ stop :: rest2))
    (F : Nat) (hF : (E.paren e).fuel ≤ F) :
    ∃ v1 v2 s1' s2', run F (.binaryExpression m none) s1 = .ok v1 s1' ∧
      run F (.binaryExpression m none) s2 = .ok v2 s2' ∧ erase v1 = erase v2 := by
  obtain ⟨s1', hr1, _, _⟩ := (parse_ok (E.paren e)).1 m s1 stop rest1 (.paren _ _ hwf0) hstop1 hstop2 h1 F hF
  obtain ⟨s2', hr2, _, _⟩ := (parse_ok e).1 m s2 stop rest2 hwf hstop1 hstop2 h2 F
    (by simp only [E.fuel, E.btSize, E.opFuel] at hF ⊢; omega)
  refine ⟨_, _, s1', s2', hr1, hr2, ?_⟩
  have := congrArg erase (paren_transparent ⟨"", 0, none⟩ e s1.idx s2.idx)
  rwa [erase_mapCoords, erase_mapCoords] at this

end PycModel.C17
