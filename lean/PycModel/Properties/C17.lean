import PycModel.Parser.Stmt
import PycModel.Proofs.ParenExpr
import PycModel.Proofs.FullExpr
/-!
# C17 — the AST (minus coordinates) depends only on the token sequence

The parser model is factored as `finish ∘ parseCore ∘ strip`: `parseCore` receives only the
classes and spellings of the tokens (`SEv`), never a position, a file name or a directive.
-/
namespace PycModel.C17
open PycModel

variable {env : Env}

mutual
/-- drop every coordinate -/
def erase : Val → Val
  | .none => .none
  | .str s => .str s
  | .list vs => .list (eraseL vs)
  | .node c _ fs => .node c none (eraseL fs)
def eraseL : List Val → List Val
  | [] => []
  | v :: vs => erase v :: eraseL vs
end

mutual
theorem erase_mapCoords (f : Coord → Coord) : ∀ v : Val, erase (v.mapCoords f) = erase v
  | .none => by simp [Val.mapCoords, erase]
  | .str s => by simp [Val.mapCoords, erase]
  | .list vs => by simp [Val.mapCoords, erase, eraseL_mapCoords f vs]
  | .node c co fs => by simp [Val.mapCoords, erase, eraseL_mapCoords f fs]
theorem eraseL_mapCoords (f : Coord → Coord) : ∀ vs : List Val, eraseL (Val.mapCoordsL f vs) = eraseL vs
  | [] => by simp [Val.mapCoordsL, eraseL]
  | v :: vs => by simp [Val.mapCoordsL, eraseL, erase_mapCoords f v, eraseL_mapCoords f vs]
end

/-- what the property observes of an outcome: the coordinate-free tree, or the bare fact of rejection -/
def obs : Outcome → Option Val
  | .ast v => some (erase v)
  | _ => none

def obsCore : CoreOutcome → Option Val
  | .ast v => some (erase v)
  | _ => none

theorem obs_finish (inf : Array EvInfo) (f : String) (r : CoreOutcome) :
    obs (finish inf f r) = obsCore r := by
  cases r <;> simp [finish, obs, obsCore, erase_mapCoords]

/-- **Layout independence, all event streams**: two lexer event streams that carry the same
sequence of token classes and spellings (whatever the positions, file names, `#line` directives,
and the file name passed to `parse`) give the same coordinate-free AST — or are both rejected. -/
theorem layout_independence (fuel : Nat) (evs₁ evs₂ : List Ev) (file₁ file₂ : String)
    (h : strip evs₁ = strip evs₂) :
    obs (parseEvents fuel evs₁ file₁).1 = obs (parseEvents fuel evs₂ file₂).1 := by
  simp [parseEvents, obs_finish, h]

/-- in particular for two texts whose scans agree on classes and spellings -/
theorem layout_independence_text (cfg : LexCfg) (fuel : Nat) (t₁ t₂ f₁ f₂ : String)
    (h : strip (scan cfg (fun _ => false) t₁.toList f₁) = strip (scan cfg (fun _ => false) t₂.toList f₂)) :
    obs (parseText cfg fuel t₁ f₁).1 = obs (parseText cfg fuel t₂ f₂).1 := by
  simp only [parseText]
  exact layout_independence fuel _ _ f₁ f₂ h

/-! ## redundant parentheses -/
open PycModel.ParenExpr PycModel.View PycModel.OperandId in
/-- **Wrapping an expression in redundant parentheses changes nothing but coordinates** - for
every expression of identifiers, parentheses and binary operators, of any size: what the parser
model returns for `( e )` and for `e` (from any two states that see them) are the same tree once
coordinates are erased. -/
theorem redundant_parentheses_change_only_coordinates (e : E) (m : Nat) (hwf0 : WFE 0 e) (hwf : WFE m e)
    (s1 s2 : PState) (stop : Tk) (rest1 rest2 : List Tk)
    (hstop1 : binPrec stop.1 = none) (hstop2 : stop.1 ∉ postfixStarters)
    (h1 : SeesT env s1 ((E.paren e).flat ++ stop :: rest1)) (h2 : SeesT env s2 (e.flat ++ stop :: rest2))
    (F : Nat) (hF : (E.paren e).fuel ≤ F) :
    ∃ v1 v2 s1' s2', run F (.binaryExpression m none) s1 = .ok v1 s1' ∧
      run F (.binaryExpression m none) s2 = .ok v2 s2' ∧ erase v1 = erase v2 := by
  obtain ⟨s1', hr1, _, _⟩ := (parse_ok (E.paren e)).1 m s1 stop rest1 (.paren _ _ hwf0) hstop1 hstop2 h1 F hF
  obtain ⟨s2', hr2, _, _⟩ := (parse_ok e).1 m s2 stop rest2 hwf hstop1 hstop2 h2 F
    (by simp only [E.fuel, E.btSize, E.opFuel] at hF ⊢; omega)
  refine ⟨_, _, s1', s2', hr1, hr2, ?_⟩
  have := congrArg erase (paren_transparent ⟨"", 0, none⟩ e s1.idx s2.idx)
  rwa [erase_mapCoords, erase_mapCoords] at this

/-! ## ... for the whole expression grammar of `Proofs/FullExpr.lean` -/

open PycModel.View PycModel.TypeName PycModel.DeclSkel PycModel.TypeModify PycModel.BuildDecl in
theorem typeNames_names : ∀ (l : List Tk) (n m : Nat),
    (typeNames n l).map (·.1) = (typeNames m l).map (·.1)
  | [], _, _ => rfl
  | t :: r, n, m => by
    simp only [typeNames]
    split
    · simp [typeNames_names r (n + 1) (m + 1)]
    · exact typeNames_names r (n + 1) (m + 1)

open PycModel.View PycModel.TypeName PycModel.DeclSkel PycModel.TypeModify PycModel.BuildDecl in
theorem erase_chain_stars : ∀ (stars : List (List Tk)) (a b : Nat) (t t' : Val), erase t = erase t' →
    erase (chainVal ((starPairs a stars).map pairM).reverse t) = erase (chainVal ((starPairs b stars).map pairM).reverse t')
  | [], _, _, t, t', h => by simpa [starPairs, chainVal] using h
  | q :: r, a, b, t, t', h => by
    simp only [starPairs, List.map_cons, List.reverse_cons, chainVal_append, chainVal]
    apply erase_chain_stars r
    simp only [pairM, M.wrap, mk, erase, eraseL, h]

open PycModel.View PycModel.TypeName PycModel.DeclSkel PycModel.TypeModify PycModel.BuildDecl in
/-- the coordinate-free AST of a type name does not depend on where its tokens are -/
theorem erase_tnval (tn : TN) (n n' : Nat) : erase (tn.val n) = erase (tn.val n') := by
  have hn := typeNames_names tn.specs n n'
  simp only [TN.val]
  cases h1 : typeNames n tn.specs with
  | nil =>
    rw [h1] at hn
    cases h2 : typeNames n' tn.specs with
    | nil => rfl
    | cons p r => rw [h2] at hn; simp at hn
  | cons p0 names =>
    rw [h1] at hn
    cases h2 : typeNames n' tn.specs with
    | nil => rw [h2] at hn; simp at hn
    | cons p0' names' =>
      rw [h2] at hn
      have hch := erase_chain_stars tn.stars (n + tn.specs.length) (n' + tn.specs.length)
        (mk .TypeDecl none [.none, .list (tnQuals tn.specs), .none, identType p0.2 ((p0 :: names).map (·.1))])
        (mk .TypeDecl none [.none, .list (tnQuals tn.specs), .none, identType p0'.2 ((p0' :: names').map (·.1))])
        (by simp only [erase, eraseL, identType, mk, Val.strs]; rw [hn])
      simp only [mk, erase, eraseL, TN.ms] at hch ⊢
      rw [hch]

open PycModel.FullExpr in
/-- the coordinate-free AST of an expression does not depend on where its tokens are -/
theorem erase_val_indep (e : X) : (∀ n n', erase (e.val n) = erase (e.val n')) ∧
    (∀ n n', eraseL (X.items n e) = eraseL (X.items n' e)) := by
  induction e with
  | id x => exact ⟨fun _ _ => rfl, fun _ _ => rfl⟩
  | const k v t => exact ⟨fun _ _ => rfl, fun _ _ => rfl⟩
  | paren e ih =>
    exact ⟨fun n n' => ih.1 _ _, fun n n' => by simp only [X.items, eraseL]; rw [ih.1 (n + 1) (n' + 1)]⟩
  | pre k v e ih =>
    have h : ∀ n n', erase ((X.pre k v e).val n) = erase ((X.pre k v e).val n') := by
      intro n n'; simp only [X.val, mk, erase, eraseL]; rw [ih.1 (n + 1) (n' + 1)]
    exact ⟨h, fun n n' => by have := h n n'; simp only [X.val] at this; simp only [X.items, eraseL, this]⟩
  | szof e ih =>
    have h : ∀ n n', erase ((X.szof e).val n) = erase ((X.szof e).val n') := by
      intro n n'; simp only [X.val, mk, erase, eraseL]; rw [ih.1 (n + 1) (n' + 1)]
    exact ⟨h, fun n n' => by have := h n n'; simp only [X.val] at this; simp only [X.items, eraseL, this]⟩
  | post k v e ih =>
    have h : ∀ n n', erase ((X.post k v e).val n) = erase ((X.post k v e).val n') := by
      intro n n'; simp only [X.val, mk, erase, eraseL]; rw [ih.1 n n']
    exact ⟨h, fun n n' => by have := h n n'; simp only [X.val] at this; simp only [X.items, eraseL, this]⟩
  | index e i ihe ihi =>
    have h : ∀ n n', erase ((X.index e i).val n) = erase ((X.index e i).val n') := by
      intro n n'; simp only [X.val, mk, erase, eraseL]; rw [ihe.1 n n', ihi.1 (n + e.ntoks + 1) (n' + e.ntoks + 1)]
    exact ⟨h, fun n n' => by have := h n n'; simp only [X.val] at this; simp only [X.items, eraseL, this]⟩
  | member k v e f ih =>
    have h : ∀ n n', erase ((X.member k v e f).val n) = erase ((X.member k v e f).val n') := by
      intro n n'; simp only [X.val, mk, erase, eraseL, ParenExpr.idNode]; rw [ih.1 n n']
    exact ⟨h, fun n n' => by have := h n n'; simp only [X.val] at this; simp only [X.items, eraseL, this]⟩
  | call0 f ih =>
    have h : ∀ n n', erase ((X.call0 f).val n) = erase ((X.call0 f).val n') := by
      intro n n'; simp only [X.val, mk, erase, eraseL]; rw [ih.1 n n']
    exact ⟨h, fun n n' => by have := h n n'; simp only [X.val] at this; simp only [X.items, eraseL, this]⟩
  | call f a ihf iha =>
    have h : ∀ n n', erase ((X.call f a).val n) = erase ((X.call f a).val n') := by
      intro n n'; simp only [X.val, mk, erase, eraseL]
      rw [ihf.1 n n', iha.2 (n + f.ntoks + 1) (n' + f.ntoks + 1)]
    exact ⟨h, fun n n' => by have := h n n'; simp only [X.val] at this; simp only [X.items, eraseL, this]⟩
  | bin k v l r ihl ihr =>
    have h : ∀ n n', erase ((X.bin k v l r).val n) = erase ((X.bin k v l r).val n') := by
      intro n n'; simp only [X.val, mk, erase, eraseL]; rw [ihl.1 n n', ihr.1 (n + l.ntoks + 1) (n' + l.ntoks + 1)]
    exact ⟨h, fun n n' => by have := h n n'; simp only [X.val] at this; simp only [X.items, eraseL, this]⟩
  | cond c t f ihc iht ihf =>
    have h : ∀ n n', erase ((X.cond c t f).val n) = erase ((X.cond c t f).val n') := by
      intro n n'; simp only [X.val, mk, erase, eraseL]
      rw [ihc.1 n n', iht.1 (n + c.ntoks + 1) (n' + c.ntoks + 1),
        ihf.1 (n + c.ntoks + 1 + t.ntoks + 1) (n' + c.ntoks + 1 + t.ntoks + 1)]
    exact ⟨h, fun n n' => by have := h n n'; simp only [X.val] at this; simp only [X.items, eraseL, this]⟩
  | assign k v l r ihl ihr =>
    have h : ∀ n n', erase ((X.assign k v l r).val n) = erase ((X.assign k v l r).val n') := by
      intro n n'; simp only [X.val, mk, erase, eraseL]; rw [ihl.1 n n', ihr.1 (n + l.ntoks + 1) (n' + l.ntoks + 1)]
    exact ⟨h, fun n n' => by have := h n n'; simp only [X.val] at this; simp only [X.items, eraseL, this]⟩
  | comma a b iha ihb =>
    refine ⟨fun n n' => ?_, fun n n' => ?_⟩
    · simp only [X.val, mk, erase, eraseL]; rw [iha.1 n n', ihb.2 (n + a.ntoks + 1) (n' + a.ntoks + 1)]
    · simp only [X.items, eraseL]; rw [iha.1 n n', ihb.2 (n + a.ntoks + 1) (n' + a.ntoks + 1)]
  | cast tn e ih =>
    have h : ∀ n n', erase ((X.cast tn e).val n) = erase ((X.cast tn e).val n') := by
      intro n n'; simp only [X.val, mk, erase, eraseL]
      rw [erase_tnval tn (n + 1) (n' + 1), ih.1 (n + tn.ntoks + 2) (n' + tn.ntoks + 2)]
    exact ⟨h, fun n n' => by have := h n n'; simp only [X.val] at this; simp only [X.items, eraseL, this]⟩
  | szofT tn =>
    have h : ∀ n n', erase ((X.szofT tn).val n) = erase ((X.szofT tn).val n') := by
      intro n n'; simp only [X.val, mk, erase, eraseL]
      rw [erase_tnval tn (n + 2) (n' + 2)]
    exact ⟨h, fun n n' => by have := h n n'; simp only [X.val] at this; simp only [X.items, eraseL, this]⟩
  | alignT tn =>
    have h : ∀ n n', erase ((X.alignT tn).val n) = erase ((X.alignT tn).val n') := by
      intro n n'; simp only [X.val, mk, erase, eraseL]
      rw [erase_tnval tn (n + 2) (n' + 2)]
    exact ⟨h, fun n n' => by have := h n n'; simp only [X.val] at this; simp only [X.items, eraseL, this]⟩

open PycModel.FullExpr PycModel.View in
/-- **Redundant parentheses change nothing but coordinates, for the whole expression grammar**
(identifiers, constants, postfix and prefix operators, `sizeof`, binary operators, `?:`, assignment,
comma; any size): what `_parse_expression` returns for `( e )` and for `e`, from any two states that
see them, are the same tree once coordinates are erased. -/
theorem redundant_parentheses_change_only_coordinates_full (e : X) (hwf : WFX 0 e)
    (s1 s2 : PState) (stop : Tk) (rest1 rest2 : List Tk) (hstop : StopX stop.1)
    (h1 : SeesT env s1 ((X.paren e).flat ++ stop :: rest1)) (h2 : SeesT env s2 (e.flat ++ stop :: rest2))
    (F : Nat) (hF : (X.paren e).fuel ≤ F) :
    ∃ v1 v2 s1' s2', run F .expression s1 = .ok v1 s1' ∧ run F .expression s2 = .ok v2 s2' ∧
      erase v1 = erase v2 := by
  obtain ⟨s1', hr1, _, _⟩ := parse_full (.paren e) (.paren _ _ hwf) s1 stop rest1 hstop h1 F hF
  obtain ⟨s2', hr2, _, _⟩ := parse_full e hwf s2 stop rest2 hstop h2 F (by simp only [X.fuel] at hF; omega)
  exact ⟨_, _, s1', s2', hr1, hr2, (erase_val_indep e).1 _ _⟩

end PycModel.C17
