import PycModel.Parser.Stmt
/-!
# C11 — coordinates point at real source locations

In the parser model a coordinate is created only by `tokCoord` (token index, file reference) and
resolved by `finish` against the lexer's event list, so line and column are *copied from a lexer
event*, never computed.
-/
namespace PycModel.C11
open PycModel

/-- line and column of a resolved coordinate are those of the lexer event it indexes -/
theorem resolved_position_is_event_position (inf : Array EvInfo) (file0 : String) (c : Coord)
    (i : EvInfo) (h : inf[c.line]? = some i) :
    (resolveCoord inf file0 c).line = i.line ∧ (resolveCoord inf file0 c).col = some i.col := by
  simp [resolveCoord, h]

/-- the file of a token coordinate is the file in force when *that token* was returned by the
lexer (after fix of F-coord-file-lookahead; before it, the reference was the parser's current
look-ahead position) -/
theorem token_coord_file (inf : Array EvInfo) (file0 : String) (t : PTok) (s : PState) (e : EvInfo)
    (h : inf[t.idx]? = some e) :
    ∃ c s', tokCoord t s = .ok c s' ∧ resolveCoord inf file0 c = ⟨e.file, e.line, some e.col⟩ := by
  refine ⟨_, _, rfl, ?_⟩
  simp [resolveCoord, resolveFile, h]

/-- lexer errors are reported at exactly the position and file the scanner attached to them -/
theorem lex_error_location (inf : Array EvInfo) (file0 : String) (i : Nat) (e : EvInfo)
    (h : inf[i]? = some e) :
    finish inf file0 (.lexError i) = .parseError (.coord ⟨e.file, e.line, some e.col⟩) e.msg := by
  simp [finish, h]

end PycModel.C11
