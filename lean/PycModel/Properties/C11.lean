import PycModel.Parser.Stmt
import PycModel.Properties.C09
import PycModel.Proofs.TransUnit
/-!
# C11 — coordinates point at real source locations

In the parser model a coordinate is created only by `tokCoord` (token index, file reference) and
resolved by `finish` against the lexer's event list, so line and column are *copied from a lexer
event*, never computed.
-/
namespace PycModel.C11
open PycModel

/-- line and column of a resolved coordinate are those of the lexer event it indexes -/
theorem resolved_position_is_event_position (inf : Array EvInfo) (file0 : String) (c : Coord)
    (i : EvInfo) (h : inf[c.line]? = some i) :
    (resolveCoord inf file0 c).line = i.line ∧ (resolveCoord inf file0 c).col = some i.col := by
  simp [resolveCoord, h]

/-- the file of a token coordinate is the file in force when *that token* was returned by the
lexer (after fix of F-coord-file-lookahead; before it, the reference was the parser's current
look-ahead position) -/
theorem token_coord_file (inf : Array EvInfo) (file0 : String) (t : PTok) (s : PState) (e : EvInfo)
    (h : inf[t.idx]? = some e) :
    ∃ c s', tokCoord t s = .ok c s' ∧ resolveCoord inf file0 c = ⟨e.file, e.line, some e.col⟩ := by
  refine ⟨_, _, rfl, ?_⟩
  simp [resolveCoord, resolveFile, h]

/-- lexer errors are reported at exactly the position and file the scanner attached to them -/
theorem lex_error_location (inf : Array EvInfo) (file0 : String) (i : Nat) (e : EvInfo)
    (h : inf[i]? = some e) :
    finish inf file0 (.lexError i) = .parseError (.coord ⟨e.file, e.line, some e.col⟩) e.msg := by
  simp [finish, h]


/-! ## composition with the scanner's position exactness (`C09.scan_position_exact`) -/

theorem infos_index (pre post : List Ev) (e : Ev) (s : SEv) (i : EvInfo) (h : stripEv e = some (s, i)) :
    (infos (pre ++ e :: post))[(strip pre).length]? = some i := by
  simp [infos, strip, List.filterMap_append, List.filterMap_cons, h]

open LexPos in
/-- **A resolved coordinate is a true source position.** For every text: if a coordinate carries
the index of a token that the scanner returned before any error report, then its resolved line
and column are that token's, and that token is position-exact in the text - its value is spelled
at its offset, its column counts from the last newline, its line is the `#line`-re-based line. -/
theorem coord_is_true_token_position (text : List Char) (file : String)
    (pre : List Ev) (t : Token) (off : Nat) (f : String) (post : List Ev)
    (h : scan Generated.lexCfg (fun _ => false) text file = pre ++ .tok t off f :: post)
    (hpre : ∀ e ∈ pre, isErr e = false) (c : Coord) (hc : c.line = (strip pre).length) :
    (resolveCoord (infos (scan Generated.lexCfg (fun _ => false) text file)) file c).line = t.line ∧
    (resolveCoord (infos (scan Generated.lexCfg (fun _ => false) text file)) file c).col = some t.col ∧
    Exact text (baseFrom (1, 0) pre).1 (baseFrom (1, 0) pre).2 t off := by
  have hx := C09.scan_position_exact (fun _ => false) text file pre t off f post h hpre
  have hi := infos_index pre post (.tok t off f) _ _ rfl
  rw [← h, ← hc] at hi
  have := resolved_position_is_event_position _ file c _ hi
  exact ⟨this.1, this.2, hx⟩

/-! ## declared names: the coordinate is that of the token that spells the name -/

open PycModel.DeclSkel in
/-- position of the `ID` token that spells the declared name inside the tokens of a declarator -/
def namePos : D → Nat
  | .name _ => 0
  | .paren d => 1 + namePos d
  | .ptr stars d => starsNtoks stars + namePos d
  | .arr d _ => namePos d
  | .fn0 d => namePos d

open PycModel.View PycModel.FullExpr PycModel.DeclSkel PycModel.DeclParse PycModel.BuildDecl in
/-- **The `TypeDecl` of a declared name carries the index of exactly the `ID` token that spells
it.**  For every named declarator (pointers with qualifiers in front, array / function suffixes
behind, grouping parentheses, any length and depth) whose first token is token number `n` of the
input: the coordinate the parser gives the name-carrying `TypeDecl` (`dTco`, the value
`DeclParse.parse_declaration` returns) is the pseudo-coordinate `tc k` of token `k = n + namePos d`,
and token `namePos d` of the declarator is `("ID", name)`.  With `coord_is_true_token_position` (a
coordinate carrying a token's index resolves to that token's true file / line / column) this is
the "exactly the token that spells them" clause of the property for declared names. -/
theorem declared_name_coordinate_is_its_token : ∀ (d : D) (n : Nat),
    dTco n d = tc (n + namePos d) ∧ d.flat[namePos d]? = some ("ID", dName d)
  | .name x, n => by simp [dTco, namePos, D.flat, dName]
  | .paren d, n => by
    obtain ⟨h1, h2⟩ := declared_name_coordinate_is_its_token d (n + 1)
    refine ⟨by simp only [dTco, namePos, h1]; congr 1; omega, ?_⟩
    have hlt : namePos d < d.flat.length := by
      rcases Nat.lt_or_ge (namePos d) d.flat.length with h | h
      · exact h
      · rw [List.getElem?_eq_none h] at h2; cases h2
    simp only [D.flat, namePos, dName]
    rw [show 1 + namePos d = namePos d + 1 by omega, List.getElem?_cons_succ, List.getElem?_append_left hlt]
    exact h2
  | .ptr stars d, n => by
    obtain ⟨h1, h2⟩ := declared_name_coordinate_is_its_token d (n + starsNtoks stars)
    refine ⟨by simp only [dTco, namePos, h1]; congr 1; omega, ?_⟩
    simp only [D.flat, namePos, dName]
    rw [List.getElem?_append_right (by simp [starsFlat_length])]
    simpa [starsFlat_length] using h2
  | .arr d dim, n => by
    obtain ⟨h1, h2⟩ := declared_name_coordinate_is_its_token d n
    refine ⟨by simp only [dTco, namePos, h1], ?_⟩
    have hlt : namePos d < d.flat.length := by
      rcases Nat.lt_or_ge (namePos d) d.flat.length with h | h
      · exact h
      · rw [List.getElem?_eq_none h] at h2; cases h2
    simp only [D.flat, namePos, dName]
    rw [List.getElem?_append_left hlt]; exact h2
  | .fn0 d, n => by
    obtain ⟨h1, h2⟩ := declared_name_coordinate_is_its_token d n
    refine ⟨by simp only [dTco, namePos, h1], ?_⟩
    have hlt : namePos d < d.flat.length := by
      rcases Nat.lt_or_ge (namePos d) d.flat.length with h | h
      · exact h
      · rw [List.getElem?_eq_none h] at h2; cases h2
    simp only [D.flat, namePos, dName]
    rw [List.getElem?_append_left hlt]; exact h2

open PycModel.View PycModel.FullExpr PycModel.DeclSkel PycModel.DeclParse PycModel.BuildDecl PycModel.TypeModify in
/-- the `Decl` built for an init-declarator carries, at the end of its type chain, a `TypeDecl` whose
name and coordinate are those of the declarator's `ID` token -/
theorem decl_typedecl_names_its_token (sp : DeclSpec) (ico : Option Coord) (names : List String) (it : IDc) (n : Nat) :
    ∃ ty, declOut sp ico names (it.di n) =
        mk .Decl (it.di n).coord [.str (dName it.d), .list sp.qual, .list sp.alignment, .list sp.storage, .list sp.function,
          chainVal (it.d.chain n) (mk .TypeDecl (tc (n + namePos it.d)) [.str (dName it.d), .list sp.qual, .none, ty]),
          (it.di n).init, .none] ∧
      it.d.flat[namePos it.d]? = some ("ID", dName it.d) := by
  obtain ⟨h1, h2⟩ := declared_name_coordinate_is_its_token it.d n
  refine ⟨identType ico names, ?_, h2⟩
  have hdi : (it.di n).tco = tc (n + namePos it.d) := h1
  show declPost _ _ _ _ _ _ (chainVal (it.di n).ms (tdFull (it.di n).x (it.di n).tco sp.qual (identType ico names))) _ = _
  rw [hdi]
  rfl

open PycModel.View PycModel.OperandId in
/-- **`_here()`**: while a token is left, an error raised "here" is located at exactly that token
(its index; `coord_is_true_token_position` turns the index into the token's true line and column) -/
theorem here_is_next_token {env : Env} (s : PState) (k v : String) (toks : List Tk) (h : SeesT env s ((k, v) :: toks)) :
    ∃ s', hereLoc s = .ok (.coord ⟨"", s.idx, some (s.idx + 1)⟩) s' ∧ SeesT env s' ((k, v) :: toks) := by
  obtain ⟨s', hp, hs', _, _, _⟩ := peek_spec s k v toks h
  exact ⟨s', by simp [hereLoc, StmtSkel.bnd, hp, tokCoord, StmtSkel.pur], hs'⟩

open PycModel.View PycModel.OperandId in
/-- **A missing operand is reported at the token that stands in its place.**  From every state
that sees a token which cannot start a primary expression (anything but an identifier, a constant,
a string literal, `(` and `offsetof`: `;`, `)`, an operator, a keyword ...), `_parse_primary_expression`
raises `Invalid expression` located at that token - never with a file name only. -/
theorem invalid_expression_is_located {env : Env} (s : PState) (k v : String) (toks : List Tk)
    (h : SeesT env s ((k, v) :: toks)) (F : Nat)
    (hk : k ≠ "ID" ∧ k ∉ intConst ∧ k ∉ floatConst ∧ k ∉ charConst ∧ k ∉ stringLiteral ∧ k ∉ wstrLiteral ∧ k ≠ "LPAREN" ∧
      k ≠ "OFFSETOF") :
    run (F + 1) .primaryExpression s = .err (.parse (.coord ⟨"", s.idx, some (s.idx + 1)⟩) "Invalid expression") := by
  obtain ⟨hid, hi, hf, hc, hs, hw, hl, ho⟩ := hk
  obtain ⟨s1, h1, hs1, hi1, _⟩ := peekType_spec s _ h
  obtain ⟨s2, h2, _⟩ := here_is_next_token s1 k v toks hs1
  rw [hi1] at h2
  show pPrimaryExpression (run F) s = _
  simp [pPrimaryExpression, StmtSkel.bnd, h1, hid, DeclSkel.not_mem_inSet hi, DeclSkel.not_mem_inSet hf, DeclSkel.not_mem_inSet hc,
    DeclSkel.not_mem_inSet hs, DeclSkel.not_mem_inSet hw, hl, ho, h2, parseError, P.fail]

open PycModel.View in
/-- non-vacuity: `;` where an operand is expected (`x = ;`) -/
example : ∃ env s, SeesT env s [("SEMI", ";")] ∧
    run 5 .primaryExpression s = .err (.parse (.coord ⟨"", 0, some 1⟩) "Invalid expression") := by
  have hs := ParenExpr.seesT_init [("SEMI", ";")]
  exact ⟨_, _, hs, invalid_expression_is_located _ "SEMI" ";" [] hs 4 (by decide)⟩

end PycModel.C11
