import PycModel.Parser.Stmt
import PycModel.Properties.C09
/-!
# C11 — coordinates point at real source locations

In the parser model a coordinate is created only by `tokCoord` (token index, file reference) and
resolved by `finish` against the lexer's event list, so line and column are *copied from a lexer
event*, never computed.
-/
namespace PycModel.C11
open PycModel

/-- line and column of a resolved coordinate are those of the lexer event it indexes -/
theorem resolved_position_is_event_position (inf : Array EvInfo) (file0 : String) (c : Coord)
    (i : EvInfo) (h : inf[c.line]? = some i) :
    (resolveCoord inf file0 c).line = i.line ∧ (resolveCoord inf file0 c).col = some i.col := by
  simp [resolveCoord, h]

/-- the file of a token coordinate is the file in force when *that token* was returned by the
lexer (after fix of F-coord-file-lookahead; before it, the reference was the parser's current
look-ahead position) -/
theorem token_coord_file (inf : Array EvInfo) (file0 : String) (t : PTok) (s : PState) (e : EvInfo)
    (h : inf[t.idx]? = some e) :
    ∃ c s', tokCoord t s = .ok c s' ∧ resolveCoord inf file0 c = ⟨e.file, e.line, some e.col⟩ := by
  refine ⟨_, _, rfl, ?_⟩
  simp [resolveCoord, resolveFile, h]

/-- lexer errors are reported at exactly the position and file the scanner attached to them -/
theorem lex_error_location (inf : Array EvInfo) (file0 : String) (i : Nat) (e : EvInfo)
    (h : inf[i]? = some e) :
    finish inf file0 (.lexError i) = .parseError (.coord ⟨e.file, e.line, some e.col⟩) e.msg := by
  simp [finish, h]


/-! ## composition with the scanner's position exactness (`C09.scan_position_exact`) -/

theorem infos_index (pre post : List Ev) (e : Ev) (s : SEv) (i : EvInfo) (h : stripEv e = some (s, i)) :
    (infos (pre ++ e :: post))[(strip pre).length]? = some i := by
  simp [infos, strip, List.filterMap_append, List.filterMap_cons, h]

open LexPos in
/-- **A resolved coordinate is a true source position.** For every text: if a coordinate carries
the index of a token that the scanner returned before any error report, then its resolved line
and column are that token's, and that token is position-exact in the text - its value is spelled
at its offset, its column counts from the last newline, its line is the `#line`-re-based line. -/
theorem coord_is_true_token_position (text : List Char) (file : String)
    (pre : List Ev) (t : Token) (off : Nat) (f : String) (post : List Ev)
    (h : scan Generated.lexCfg (fun _ => false) text file = pre ++ .tok t off f :: post)
    (hpre : ∀ e ∈ pre, isErr e = false) (c : Coord) (hc : c.line = (strip pre).length) :
    (resolveCoord (infos (scan Generated.lexCfg (fun _ => false) text file)) file c).line = t.line ∧
    (resolveCoord (infos (scan Generated.lexCfg (fun _ => false) text file)) file c).col = some t.col ∧
    Exact text (baseFrom (1, 0) pre).1 (baseFrom (1, 0) pre).2 t off := by
  have hx := C09.scan_position_exact (fun _ => false) text file pre t off f post h hpre
  have hi := infos_index pre post (.tok t off f) _ _ rfl
  rw [← h, ← hc] at hi
  have := resolved_position_is_event_position _ file c _ hi
  exact ⟨this.1, this.2, hx⟩

end PycModel.C11
