import PycModel.Reflect
import PycModel.Parser.Stmt
import PycModel.Properties.C17
/-!
# C15 — ASTs survive repr/eval, pickle and deepcopy

The pycparser-specific part is `Node.__repr__` / `_repr` (modelled in `Reflect.lean`, compared
text-for-text with the real `repr`) and the `__slots__` layout (class table, C14).  `eval`,
`pickle` and `copy` are the interpreter's and are exercised, not modelled.
-/
namespace PycModel.C15
open PycModel

mutual
/-- `repr` never depends on coordinates: what `eval(repr(t))` can rebuild is exactly the
coordinate-free tree -/
theorem repr_mapCoords (f : Coord → Coord) : ∀ v : Val, reprVal (v.mapCoords f) = reprVal v
  | .none => by simp [Val.mapCoords, reprVal]
  | .str s => by simp [Val.mapCoords, reprVal]
  | .list vs => by simp [Val.mapCoords, reprVal, reprList_mapCoords f vs]
  | .node c co fs => by
    simp only [Val.mapCoords, reprVal]
    rw [reprFields_mapCoords f c.name (c.fields.map (·.1)) fs true]
theorem reprList_mapCoords (f : Coord → Coord) : ∀ vs : List Val,
    reprListElems (Val.mapCoordsL f vs) = reprListElems vs
  | [] => by simp [Val.mapCoordsL, reprListElems]
  | v :: vs => by simp [Val.mapCoordsL, reprListElems, repr_mapCoords f v, reprList_mapCoords f vs]
theorem reprFields_mapCoords (f : Coord → Coord) (cn : String) : ∀ (ns : List String) (vs : List Val) (b : Bool),
    reprFields cn ns (Val.mapCoordsL f vs) b = reprFields cn ns vs b
  | [], _, _ => by simp [reprFields]
  | _ :: _, [], _ => by simp [Val.mapCoordsL, reprFields]
  | n :: ns, v :: vs, b => by
    simp [Val.mapCoordsL, reprFields, repr_mapCoords f v, reprFields_mapCoords f cn ns vs false]
end

end PycModel.C15
