import PycModel.Instance
import PycModel.Generated.StateInventory
/-!
# C13 — separate instances never influence each other
-/
namespace PycModel.C13
open PycModel

/-- inputs of machine `i` in a schedule, in order -/
def inputsOf {ι} (i : Nat) (sched : List (Nat × ι)) : List ι :=
  sched.filterMap fun p => if p.1 = i then some p.2 else none

def outputsOf {ο} (i : Nat) (out : List (Nat × ο)) : List ο :=
  out.filterMap fun p => if p.1 = i then some p.2 else none

/-- **non-interference, all schedules**: for any family of deterministic machines over disjoint
state and any interleaving of their steps, what machine `i` outputs is what it outputs when run
alone on its own inputs -/
theorem interleave_proj {σ ι ο} (ms : Nat → Machine σ ι ο) (i : Nat) :
    ∀ (sched : List (Nat × ι)) (st : Nat → σ),
      outputsOf i (runSched ms st sched) = (ms i).runSolo (st i) (inputsOf i sched) := by
  intro sched
  induction sched with
  | nil => intro st; simp [runSched, outputsOf, inputsOf, Machine.runSolo]
  | cons p rest ih =>
    intro st
    obtain ⟨j, x⟩ := p
    simp only [runSched]
    by_cases h : j = i
    · subst h
      simp only [outputsOf, inputsOf, List.filterMap_cons, ↓reduceIte, Machine.runSolo]
      have := ih (fun k => if k = j then ((ms j).step (st j) x).1 else st k)
      simp only [outputsOf, inputsOf, ↓reduceIte] at this
      rw [this]
    · have hne : ¬ (i = j) := fun e => h e.symm
      simp only [outputsOf, inputsOf, List.filterMap_cons, h, ↓reduceIte]
      have := ih (fun k => if k = j then ((ms j).step (st j) x).1 else st k)
      simp only [outputsOf, inputsOf, hne, ↓reduceIte] at this
      exact this

/-- obligation: no state is shared between instances — every module-level, class-level or
default-argument object of the four modules is immutable, or no function writes to it after
import (write-site scan of the current source; dynamic writes make the scan answer `true`) -/
theorem impl_no_shared_mutable_state :
    (Generated.moduleState.all fun (_, _, _mutable, written) => !written) = true := by decide

end PycModel.C13
