import PycModel.Proofs.StreamLemmas
import PycModel.Proofs.LexerTotal
import PycModel.Parser.Stmt
import PycModel.Proofs.StreamRel
/-!
# C06 — `parse()` either returns a FileAST or raises ParseError

Full statement (kept visible; proved only in part so far):
-/
namespace PycModel.C06
open PycModel

/-- the location prefix the property demands: `file:line:column: ` or `file: ` -/
def Loc.wellFormed : Loc → Bool
  | .coord c => c.col.isSome
  | .text _ => true
  | .fileRef _ => true
  | .none => false

/-- **Full property** on the model: for every event stream and fuel the outcome is a tree, a
`ParseError` with a well-formed location, or fuel exhaustion (Python: RecursionError). -/
def Full : Prop :=
  ∀ (fuel : Nat) (evs : List SEv),
    match (parseCore fuel evs).1 with
    | .ast _ => True
    | .parseError loc _ => Loc.wellFormed loc = true
    | .lexError _ => True
    | .crash _ _ => False
    | .fuel => True

/-- the lexer side of the error channel: pulling a token never raises anything but the lexer's
own error (the scope-pop assertion is gone after fix e41bce1) -/
theorem lexer_pull_never_crashes (s : PState) : (lexToken s).isCrash = false :=
  lexToken_no_crash s

/-- errors reported by the lexer always reach the user as `file:line:col: msg` -/
theorem lex_error_has_full_location (inf : Array EvInfo) (file0 : String) (i : Nat) :
    ∃ c msg, finish inf file0 (.lexError i) = .parseError (.coord c) msg ∧ c.col.isSome = true := by
  simp [finish]

/-- the scanner is total on every text (it is a Lean function with no error result) and never
spins; hence `parse` cannot hang in the lexer -/
theorem scanner_terminates (cfg : LexCfg) (h : cfg.wf = true) (text : List Char) (file : String) :
    Ev.stuck ∉ scan cfg (fun _ => false) text file :=
  scan_no_stuck h _ text file


/-- the scope stack is never empty in any state a production can reach (so `_scope_stack[-1]`
never raises IndexError), and a stray closing brace cannot underflow it -/
theorem scope_stack_never_empty (fuel : Nat) (nt : NT) (s : PState) (a : nt.Res) (s' : PState)
    (h : run fuel nt s = .ok a s') (g : Good s) : s'.scopes ≠ [] :=
  ((run_adv fuel nt s a s' h).good g).scopes

end PycModel.C06
