import PycModel.Spec.Decl
import PycModel.Properties.Tables
/-!
# C03 — declaration ASTs encode C declarator semantics

Specification: `Spec/Decl.lean` (`Declarator`, `denote` = C99 6.7.5's inside-out rule, `chainVal`,
`declCase`).  Full statement (kept visible): for every declarator `D`, base specifier list and
context, the parser model returns `chainVal … (denote D)` on `render D`.
-/
namespace PycModel.C03
open PycModel PycModel.Spec

theorem denote_go (acc : Declarator) (ds : List Deriv) :
    denote (ofDerivs.go acc ds) = denote acc ++ ds := by
  induction ds generalizing acc with
  | nil => simp [ofDerivs.go]
  | cons d r ih =>
    cases d <;> simp [ofDerivs.go, ih, denote, List.append_assoc]

/-- the enumerator is complete and exact w.r.t. the standard's denotation: for **every** derivation
list there is a declarator denoting exactly it, and `ofDerivs` builds it — so enumerating
derivation lists enumerates all declarator meanings. -/
theorem denote_ofDerivs (n : Option String) (ds : List Deriv) : denote (ofDerivs n ds) = ds := by
  cases ds with
  | nil => simp [ofDerivs, denote]
  | cons d r => simp [ofDerivs, denote_go, denote]

/-- redundant parentheses never change what a declarator denotes -/
theorem denote_paren (d : Declarator) : denote (.paren d) = denote d := rfl

/-- the declared name is where the standard says, whatever the derivations -/
theorem ident_ofDerivs_go (acc : Declarator) (ds : List Deriv) :
    (ofDerivs.go acc ds).ident = acc.ident := by
  induction ds generalizing acc with
  | nil => simp [ofDerivs.go]
  | cons d r ih => cases d <;> simp [ofDerivs.go, ih, Declarator.ident]

theorem ident_ofDerivs (n : Option String) (ds : List Deriv) : (ofDerivs n ds).ident = n := by
  cases ds with
  | nil => simp [ofDerivs, Declarator.ident]
  | cons d r => simp [ofDerivs, ident_ofDerivs_go, Declarator.ident]

end PycModel.C03
