import PycModel.Spec.Decl
import PycModel.Properties.Tables
import PycModel.Proofs.DeclSkel
/-!
# C03 — declaration ASTs encode C declarator semantics

Specification: `Spec/Decl.lean` (`Declarator`, `denote` = C99 6.7.5's inside-out rule, `chainVal`,
`declCase`).  Full statement (kept visible): for every declarator `D`, base specifier list and
context, the parser model returns `chainVal … (denote D)` on `render D`.

Proved for inputs of any size (`Proofs/TypeModify.lean`, `Proofs/DeclSkel.lean`): the splice step
`_type_modify_decl` appends modifier chains of any length (`type_modify_appends`), and for every named
declarator built from pointers with qualifiers, array suffixes with an optional bound expression,
empty function suffixes and parentheses, `_parse_declarator_kind` returns the chain of derivations
that `denote` prescribes (`declarators_are_read_inside_out`, `chain_is_denote`).  Not covered by a
theorem: parameter lists, abstract declarators, `static` / qualifiers / `*` inside brackets, and the
declaration around the declarator (specifiers, initializers, several declarators).
-/
namespace PycModel.C03
open PycModel PycModel.Spec

variable {env : Env}

theorem denote_go (acc : Declarator) (ds : List Deriv) :
    denote (ofDerivs.go acc ds) = denote acc ++ ds := by
  induction ds generalizing acc with
  | nil => simp [ofDerivs.go]
  | cons d r ih =>
    cases d <;> simp [ofDerivs.go, ih, denote, List.append_assoc]

/-- the enumerator is complete and exact w.r.t. the standard's denotation: for **every** derivation
list there is a declarator denoting exactly it, and `ofDerivs` builds it — so enumerating
derivation lists enumerates all declarator meanings. -/
theorem denote_ofDerivs (n : Option String) (ds : List Deriv) : denote (ofDerivs n ds) = ds := by
  cases ds with
  | nil => simp [ofDerivs, denote]
  | cons d r => simp [ofDerivs, denote_go, denote]

/-- redundant parentheses never change what a declarator denotes -/
theorem denote_paren (d : Declarator) : denote (.paren d) = denote d := rfl

/-- the declared name is where the standard says, whatever the derivations -/
theorem ident_ofDerivs_go (acc : Declarator) (ds : List Deriv) :
    (ofDerivs.go acc ds).ident = acc.ident := by
  induction ds generalizing acc with
  | nil => simp [ofDerivs.go]
  | cons d r ih => cases d <;> simp [ofDerivs.go, ih, Declarator.ident]

theorem ident_ofDerivs (n : Option String) (ds : List Deriv) : (ofDerivs n ds).ident = n := by
  cases ds with
  | nil => simp [ofDerivs, Declarator.ident]
  | cons d r => simp [ofDerivs, ident_ofDerivs_go, Declarator.ident]

/-! ## the parser model on declarators of any size -/
open PycModel.TypeModify in
/-- **`_type_modify_decl` appends.** A declarator whose modifier chain (outermost first) is `ms`
around the `TypeDecl` `td`, modified by the chain `ns` whose tail is still `None`, becomes the
declarator with chain `ms ++ ns` around `td` - for chains of any length.  (So a suffix or a pointer
that is parsed later ends up *further from the name*: C's inside-out rule.) -/
theorem type_modify_appends (ms ns : List M) (td : Val) (hns : ns ≠ []) (htd : td.isCls .TypeDecl = true)
    (s : PState) :
    typeModifyDecl (chainVal ms td) (chainVal ns .none) s = .ok (chainVal (ms ++ ns) td) s :=
  typeModify_chain ms ns td hns htd s

open PycModel.DeclSkel PycModel.TypeModify PycModel.View in
/-- **Declarators are read inside-out, whatever their size.** For every declarator `d` of
`D ::= name | ( D ) | * quals ... D | D [ X? ] | D ( )` that the grammar derives (`WFD`: suffixes
apply to direct declarators, so a pointer needs parentheses to take a suffix), from every parser
state that sees its tokens followed by something that is no further suffix,
`_parse_declarator_kind` returns the modifier chain `d.chain` around the `TypeDecl` carrying the
name, and consumes exactly the tokens of `d`.  Nothing is assumed about the parser. -/
theorem declarators_are_read_inside_out (d : D) (hwf : WFD d) (s : PState) (rest : List Tk)
    (hs : SeesT env s (d.flat ++ rest)) (hfo : FollowD rest) (F : Nat) (hF : d.fuel ≤ F) :
    ∃ s', run F (.declaratorKind .id true) s = .ok (chainVal (d.chain s.idx) (d.td s.idx)) s' ∧ SeesT env s' rest ∧
      s'.idx = s.idx + d.ntoks :=
  parse_declarator d hwf s rest hs hfo F hF

/-- a derivation without its bound / parameters: what the inside-out rule orders -/
inductive R where
  | ptr (quals : List String)
  | arr
  | fn
  deriving DecidableEq, Repr

def derivR : Deriv → R
  | .ptr q => .ptr q
  | .arr _ => .arr
  | .fn _ => .fn

open PycModel.TypeModify in
def modR : M → R
  | .ptr q _ => .ptr (q.filterMap fun v => match v with | .str s => some s | _ => none)
  | .arr .. => .arr
  | .fn .. => .fn

open PycModel.DeclSkel in
/-- the standard's syntax tree of a declarator of the fragment (a star list is nested pointers) -/
def toSpec : D → Declarator
  | .name x => .name (some x)
  | .paren d => .paren (toSpec d)
  | .ptr stars d => stars.foldr (fun q acc => .ptr (q.map (·.2)) acc) (toSpec d)
  | .arr d _ => .arr (toSpec d) .empty
  | .fn0 d => .fn (toSpec d) .none

theorem denote_stars (stars : List (List View.Tk)) (d : Declarator) :
    denote (stars.foldr (fun q acc => .ptr (q.map (·.2)) acc) d) =
      denote d ++ (stars.map fun q => Deriv.ptr (q.map (·.2))).reverse := by
  induction stars with
  | nil => simp
  | cons q r ih => simp [denote, ih, List.append_assoc]

open PycModel.DeclSkel PycModel.TypeModify in
theorem starPairs_R : ∀ (n : Nat) (stars : List (List View.Tk)),
    ((starPairs n stars).map pairM).map modR = stars.map fun q => R.ptr (q.map (·.2))
  | _, [] => rfl
  | n, q :: r => by
    simp only [starPairs, List.map_cons, starPairs_R (n + 1 + q.length) r, pairM, modR, List.cons.injEq, and_true]
    congr 1
    induction q with
    | nil => rfl
    | cons t q ih => simp [List.filterMap_cons, ih]

open PycModel.DeclSkel PycModel.TypeModify in
/-- **The chain the parser builds is the standard's denotation**: the kinds (and pointer
qualifiers) of `d.chain`, outermost first, are exactly C99 6.7.5's derivations of the declarator,
from the declared name outwards. -/
theorem chain_is_denote (d : D) : ∀ n, (d.chain n).map modR = (denote (toSpec d)).map derivR := by
  induction d with
  | name x => intro n; rfl
  | paren d ih => intro n; simpa [D.chain, toSpec, denote] using ih (n + 1)
  | ptr stars d ih =>
    intro n
    simp only [D.chain, toSpec, List.map_append, List.map_reverse, ih, denote_stars, starPairs_R]
    simp [List.map_reverse, derivR, Function.comp_def]
  | arr d dim ih => intro n; simp [D.chain, toSpec, denote, ih, modR, derivR]
  | fn0 d ih => intro n; simp [D.chain, toSpec, denote, ih, modR, derivR]

open PycModel.DeclSkel PycModel.TypeModify PycModel.View PycModel.FullExpr in
/-- non-vacuity: `* const ( * a [ 3 ] ) ( ) ;` - `a` is an array of 3 pointers to functions returning
a `const` pointer: the array is outermost, the `const` pointer innermost -/
example : ∃ s',
    run 100 (.declaratorKind .id true)
      (initState ([("TIMES", "*"), ("CONST", "const"), ("LPAREN", "("), ("TIMES", "*"), ("ID", "a"), ("LBRACKET", "["),
                   ("INT_CONST_DEC", "3"), ("RBRACKET", "]"), ("RPAREN", ")"), ("LPAREN", "("), ("RPAREN", ")"),
                   ("SEMI", ";")].map (fun t => SEv.tok t.1 t.2) ++ [.eof]))
      = .ok (mk .ArrayDecl (tc 4) [
              mk .PtrDecl (tc 3) [.list [],
                mk .FuncDecl (tc 4) [.none,
                  mk .PtrDecl (tc 0) [.list [.str "const"],
                    mk .TypeDecl (tc 4) [.str "a", .none, .none, .none]]]],
              mk .Constant (tc 6) [.str "int", .str "3"], .list []]) s' ∧ (∃ env, SeesT env s' [("SEMI", ";")]) := by
  let d : D := .ptr [[("CONST", "const")]] (.fn0 (.paren (.ptr [[]] (.arr (.name "a") (some (.const "INT_CONST_DEC" "3" "int"))))))
  have hwf : WFD d := by
    refine .ptr _ _ (by simp) (by decide) (.fn0 _ (.paren _ (.ptr _ _ (by simp) (by simp) (.arr _ _ (.name _) rfl ?_) rfl)) rfl) rfl
    intro e h; cases h; exact .const _ _ _ _ (by decide)
  have hs := ParenExpr.seesT_init [("TIMES", "*"), ("CONST", "const"), ("LPAREN", "("), ("TIMES", "*"), ("ID", "a"), ("LBRACKET", "["),
    ("INT_CONST_DEC", "3"), ("RBRACKET", "]"), ("RPAREN", ")"), ("LPAREN", "("), ("RPAREN", ")"), ("SEMI", ";")]
  obtain ⟨s', hr, hs', _⟩ := parse_declarator d hwf _ [("SEMI", ";")] hs
    (by intro k v r h; cases h; exact ⟨by decide, by decide⟩) 100 (by decide)
  exact ⟨s', hr, _, hs'⟩

end PycModel.C03
