import PycModel.Spec.Decl
import PycModel.Properties.Tables
import PycModel.Proofs.DeclSkel
import PycModel.Proofs.DeclParse
/-!
# C03 — declaration ASTs encode C declarator semantics

Specification: `Spec/Decl.lean` (`Declarator`, `denote` = C99 6.7.5's inside-out rule, `chainVal`,
`declCase`).  Full statement (kept visible): for every declarator `D`, base specifier list and
context, the parser model returns `chainVal … (denote D)` on `render D`.

Proved for inputs of any size (`Proofs/TypeModify.lean`, `Proofs/DeclSkel.lean`): the splice step
`_type_modify_decl` appends modifier chains of any length (`type_modify_appends`), and for every named
declarator built from pointers with qualifiers, array suffixes with an optional bound expression,
empty function suffixes and parentheses, `_parse_declarator_kind` returns the chain of derivations
that `denote` prescribes (`declarators_are_read_inside_out`, `chain_is_denote`).  Not covered by a
theorem: parameter lists, abstract declarators, `static` / qualifiers / `*` inside brackets, and the
declaration around the declarator (specifiers, initializers, several declarators).
-/
namespace PycModel.C03
open PycModel PycModel.Spec

variable {env : Env}

theorem denote_go (acc : Declarator) (ds : List Deriv) :
    denote (ofDerivs.go acc ds) = denote acc ++ ds := by
  induction ds generalizing acc with
  | nil => simp [ofDerivs.go]
  | cons d r ih =>
    cases d <;> simp [ofDerivs.go, ih, denote, List.append_assoc]

/-- the enumerator is complete and exact w.r.t. the standard's denotation: for **every** derivation
list there is a declarator denoting exactly it, and `ofDerivs` builds it — so enumerating
derivation lists enumerates all declarator meanings. -/
theorem denote_ofDerivs (n : Option String) (ds : List Deriv) : denote (ofDerivs n ds) = ds := by
  cases ds with
  | nil => simp [ofDerivs, denote]
  | cons d r => simp [ofDerivs, denote_go, denote]

/-- redundant parentheses never change what a declarator denotes -/
theorem denote_paren (d : Declarator) : denote (.paren d) = denote d := rfl

/-- the declared name is where the standard says, whatever the derivations -/
theorem ident_ofDerivs_go (acc : Declarator) (ds : List Deriv) :
    (ofDerivs.go acc ds).ident = acc.ident := by
  induction ds generalizing acc with
  | nil => simp [ofDerivs.go]
  | cons d r ih => cases d <;> simp [ofDerivs.go, ih, Declarator.ident]

theorem ident_ofDerivs (n : Option String) (ds : List Deriv) : (ofDerivs n ds).ident = n := by
  cases ds with
  | nil => simp [ofDerivs, Declarator.ident]
  | cons d r => simp [ofDerivs, ident_ofDerivs_go, Declarator.ident]

/-! ## the parser model on declarators of any size -/
open PycModel.TypeModify in
/-- **`_type_modify_decl` appends.** A declarator whose modifier chain (outermost first) is `ms`
around the `TypeDecl` `td`, modified by the chain `ns` whose tail is still `None`, becomes the
declarator with chain `ms ++ ns` around `td` - for chains of any length.  (So a suffix or a pointer
that is parsed later ends up *further from the name*: C's inside-out rule.) -/
theorem type_modify_appends (ms ns : List M) (td : Val) (hns : ns ≠ []) (htd : td.isCls .TypeDecl = true)
    (s : PState) :
    typeModifyDecl (chainVal ms td) (chainVal ns .none) s = .ok (chainVal (ms ++ ns) td) s :=
  typeModify_chain ms ns td hns htd s

open PycModel.DeclSkel PycModel.TypeModify PycModel.View in
/-- **Declarators are read inside-out, whatever their size.** For every declarator `d` of
`D ::= name | ( D ) | * quals ... D | D [ X? ] | D ( )` that the grammar derives (`WFD`: suffixes
apply to direct declarators, so a pointer needs parentheses to take a suffix), from every parser
state that sees its tokens followed by something that is no further suffix,
`_parse_declarator_kind` returns the modifier chain `d.chain` around the `TypeDecl` carrying the
name, and consumes exactly the tokens of `d`.  Nothing is assumed about the parser. -/
theorem declarators_are_read_inside_out (d : D) (hwf : WFD d) (s : PState) (rest : List Tk)
    (hs : SeesT env s (d.flat ++ rest)) (hfo : FollowD rest) (F : Nat) (hF : d.fuel ≤ F) :
    ∃ s', run F (.declaratorKind .id true) s = .ok (chainVal (d.chain s.idx) (d.td s.idx)) s' ∧ SeesT env s' rest ∧
      s'.idx = s.idx + d.ntoks :=
  parse_declarator d hwf s rest hs hfo F hF

/-- a derivation without its bound / parameters: what the inside-out rule orders -/
inductive R where
  | ptr (quals : List String)
  | arr
  | fn
  deriving DecidableEq, Repr

def derivR : Deriv → R
  | .ptr q => .ptr q
  | .arr _ => .arr
  | .fn _ => .fn

open PycModel.TypeModify in
def modR : M → R
  | .ptr q _ => .ptr (q.filterMap fun v => match v with | .str s => some s | _ => none)
  | .arr .. => .arr
  | .fn .. => .fn

open PycModel.DeclSkel in
/-- the standard's syntax tree of a declarator of the fragment (a star list is nested pointers) -/
def toSpec : D → Declarator
  | .name x => .name (some x)
  | .paren d => .paren (toSpec d)
  | .ptr stars d => stars.foldr (fun q acc => .ptr (q.map (·.2)) acc) (toSpec d)
  | .arr d _ => .arr (toSpec d) .empty
  | .fn0 d => .fn (toSpec d) .none

theorem denote_stars (stars : List (List View.Tk)) (d : Declarator) :
    denote (stars.foldr (fun q acc => .ptr (q.map (·.2)) acc) d) =
      denote d ++ (stars.map fun q => Deriv.ptr (q.map (·.2))).reverse := by
  induction stars with
  | nil => simp
  | cons q r ih => simp [denote, ih, List.append_assoc]

open PycModel.DeclSkel PycModel.TypeModify in
theorem starPairs_R : ∀ (n : Nat) (stars : List (List View.Tk)),
    ((starPairs n stars).map pairM).map modR = stars.map fun q => R.ptr (q.map (·.2))
  | _, [] => rfl
  | n, q :: r => by
    simp only [starPairs, List.map_cons, starPairs_R (n + 1 + q.length) r, pairM, modR, List.cons.injEq, and_true]
    congr 1
    induction q with
    | nil => rfl
    | cons t q ih => simp [List.filterMap_cons, ih]

open PycModel.DeclSkel PycModel.TypeModify in
/-- **The chain the parser builds is the standard's denotation**: the kinds (and pointer
qualifiers) of `d.chain`, outermost first, are exactly C99 6.7.5's derivations of the declarator,
from the declared name outwards. -/
theorem chain_is_denote (d : D) : ∀ n, (d.chain n).map modR = (denote (toSpec d)).map derivR := by
  induction d with
  | name x => intro n; rfl
  | paren d ih => intro n; simpa [D.chain, toSpec, denote] using ih (n + 1)
  | ptr stars d ih =>
    intro n
    simp only [D.chain, toSpec, List.map_append, List.map_reverse, ih, denote_stars, starPairs_R]
    simp [List.map_reverse, derivR, Function.comp_def]
  | arr d dim ih => intro n; simp [D.chain, toSpec, denote, ih, modR, derivR]
  | fn0 d ih => intro n; simp [D.chain, toSpec, denote, ih, modR, derivR]

open PycModel.DeclSkel PycModel.TypeModify PycModel.View PycModel.FullExpr in
/-- non-vacuity: `* const ( * a [ 3 ] ) ( ) ;` - `a` is an array of 3 pointers to functions returning
a `const` pointer: the array is outermost, the `const` pointer innermost -/
example : ∃ s',
    run 100 (.declaratorKind .id true)
      (initState ([("TIMES", "*"), ("CONST", "const"), ("LPAREN", "("), ("TIMES", "*"), ("ID", "a"), ("LBRACKET", "["),
                   ("INT_CONST_DEC", "3"), ("RBRACKET", "]"), ("RPAREN", ")"), ("LPAREN", "("), ("RPAREN", ")"),
                   ("SEMI", ";")].map (fun t => SEv.tok t.1 t.2) ++ [.eof]))
      = .ok (mk .ArrayDecl (tc 4) [
              mk .PtrDecl (tc 3) [.list [],
                mk .FuncDecl (tc 4) [.none,
                  mk .PtrDecl (tc 0) [.list [.str "const"],
                    mk .TypeDecl (tc 4) [.str "a", .none, .none, .none]]]],
              mk .Constant (tc 6) [.str "int", .str "3"], .list []]) s' ∧ (∃ env, SeesT env s' [("SEMI", ";")]) := by
  let d : D := .ptr [[("CONST", "const")]] (.fn0 (.paren (.ptr [[]] (.arr (.name "a") (some (.const "INT_CONST_DEC" "3" "int"))))))
  have hwf : WFD d := by
    refine .ptr _ _ (by simp) (by decide) (.fn0 _ (.paren _ (.ptr _ _ (by simp) (by simp) (.arr _ _ (.name _) rfl ?_) rfl)) rfl) rfl
    intro e h; cases h; exact .const _ _ _ _ (by decide)
  have hs := ParenExpr.seesT_init [("TIMES", "*"), ("CONST", "const"), ("LPAREN", "("), ("TIMES", "*"), ("ID", "a"), ("LBRACKET", "["),
    ("INT_CONST_DEC", "3"), ("RBRACKET", "]"), ("RPAREN", ")"), ("LPAREN", "("), ("RPAREN", ")"), ("SEMI", ";")]
  obtain ⟨s', hr, hs', _⟩ := parse_declarator d hwf _ [("SEMI", ";")] hs
    (by intro k v r h; cases h; exact ⟨by decide, by decide⟩) 100 (by decide)
  exact ⟨s', hr, _, hs'⟩

open PycModel.DeclSkel PycModel.TypeModify PycModel.View PycModel.FullExpr PycModel.DeclParse PycModel.BuildDecl in
/-- **Declarations, from tokens to `Decl` nodes.** For every declaration

    specifiers  declarator [= initializer] {, declarator [= initializer]} ;
    initializer ::= assignment-expression | { } | { initializer {, initializer} [,] }

of any length - specifiers: qualifiers, storage classes (other than `typedef`), function specifiers,
type keywords and typedef names of the environment, at least one type specifier; declarators:
pointers with qualifiers, array and `()` suffixes, grouping parentheses (`(*fp[3])()`), any depth; the
declared names not typedef names - `_parse_declaration` returns `dc.vals`: **one `Decl` per
declared name, in source order**, each with its own name, modifier chain (`declarators_are_read_inside_out`:
the derivations in C's inside-out order) and initializer, all carrying every specifier list
complete and in source order, the chain ending in a `TypeDecl` with the qualifiers and one
`IdentifierType` that lists the type-specifier names as spelled; and it consumes exactly the tokens
of the declaration.  Nothing is assumed about the parser: the look-ahead scan of
`_parse_any_declarator`, its `_reset`, `_build_declarations`, `_fix_decl_name_type`,
`fix_atomic_specifiers` and the registration of the names in the scope stack are all executed. -/
theorem declarations_parse_as_the_grammar_says (dc : Dcl) (hwf : WFDcl dc) (hty : ∀ x ∈ dc.names, env.ty x = false)
    (s : PState) (rest : List Tk) (hs : SeesT env s (dc.flat ++ rest)) (F : Nat) (hF : dc.fuel + 1 ≤ F) :
    ∃ s', run F .declaration s = .ok (dc.vals s.idx) s' ∧ SeesT env s' rest ∧ s'.idx = s.idx + dc.ntoks :=
  parse_declaration dc hwf hty s rest hs F hF

open PycModel.DeclSkel PycModel.TypeModify PycModel.View PycModel.FullExpr PycModel.DeclParse PycModel.BuildDecl in
/-- every declared entity gets its own `Decl` with its own name, in source order -/
theorem one_decl_per_declared_name (dc : Dcl) (n : Nat) (hsaw : sawAfter false dc.specs = true) :
    (dc.vals n).map (fun v => v.getAttr "name") = dc.names.map fun x => some (Val.str x) := by
  unfold Dcl.vals
  cases htn : typeNames n dc.specs with
  | nil => exact absurd htn (typeNames_ne_nil _ _ false hsaw rfl)
  | cons p0 names =>
    simp only [List.map_map, Dcl.dis, Dcl.names, List.map_cons]
    have h1 : ∀ d : DI, (declOut (foldSpec n {} dc.specs) p0.2 (specNames p0 names) d).getAttr "name" = some (.str d.x) :=
      fun _ => rfl
    have h2 := restDIs_names dc.more (n + dc.specs.length + dc.first.ntoks)
    simp only [Function.comp_def, h1, IDc.di, List.cons.injEq, true_and]
    have h3 := congrArg (List.map fun x => some (Val.str x)) h2
    simpa [List.map_map, Function.comp_def] using h3

open PycModel.DeclSkel PycModel.TypeModify PycModel.View PycModel.FullExpr PycModel.DeclParse PycModel.BuildDecl in
/-- non-vacuity: `static const unsigned long * p [ 3 ] = x , q ;` - two `Decl`s; `p` an array of 3
pointers (array outermost), both with storage `static`, qualifier `const` and the type names
`unsigned long` in this order -/
example : ∃ s',
    run 200 .declaration
      (initState ([("STATIC", "static"), ("CONST", "const"), ("UNSIGNED", "unsigned"), ("LONG", "long"), ("TIMES", "*"),
                   ("ID", "p"), ("LBRACKET", "["), ("INT_CONST_DEC", "3"), ("RBRACKET", "]"), ("EQUALS", "="), ("ID", "x"),
                   ("COMMA", ","), ("ID", "q"), ("SEMI", ";")].map (fun t => SEv.tok t.1 t.2) ++ [.eof]))
      = .ok [mk .Decl (tc 5) [.str "p", .list [.str "const"], .list [], .list [.str "static"], .list [],
               mk .ArrayDecl (tc 5) [
                 mk .PtrDecl (tc 4) [.list [],
                   mk .TypeDecl (tc 5) [.str "p", .list [.str "const"], .none,
                     mk .IdentifierType (tc 2) [.list [.str "unsigned", .str "long"]]]],
                 mk .Constant (tc 7) [.str "int", .str "3"], .list []],
               mk .ID (tc 10) [.str "x"], .none],
             mk .Decl (tc 12) [.str "q", .list [.str "const"], .list [], .list [.str "static"], .list [],
               mk .TypeDecl (tc 12) [.str "q", .list [.str "const"], .none,
                 mk .IdentifierType (tc 2) [.list [.str "unsigned", .str "long"]]],
               .none, .none]] s' ∧ (∃ env, SeesT env s' []) := by
  let dc : Dcl :=
    { specs := [("STATIC", "static"), ("CONST", "const"), ("UNSIGNED", "unsigned"), ("LONG", "long")],
      first := { d := .ptr [[]] (.arr (.name "p") (some (.const "INT_CONST_DEC" "3" "int"))), init := some (.expr (.id "x")) },
      more := [{ d := .name "q", init := none }] }
  have hwf : WFDcl dc := by
    refine ⟨by simp [dc, SpecToks, quals3, storage5, typeSpecSimple, isTypeTok], ?_, rfl, ⟨?_, ?_⟩, ?_⟩
    · intro t ht; simp only [dc, List.mem_cons, List.not_mem_nil, or_false] at ht
      rcases ht with rfl | rfl | rfl | rfl <;> exact ⟨by decide, by decide⟩
    · refine .ptr _ _ (by simp) (by simp) (.arr _ _ (.name _) rfl ?_) rfl
      intro e h; cases h; exact .const _ _ _ _ (by decide)
    · intro e h; cases h; exact .expr _ (.id _ _)
    · intro it hit; simp only [dc, List.mem_singleton] at hit; subst hit
      exact ⟨.name _, by intro e h; cases h⟩
  have hs := ParenExpr.seesT_init (dc.flat ++ [])
  obtain ⟨s', hr, hs', _⟩ := parse_declaration dc hwf (fun _ _ => rfl) _ [] hs 200 (by decide)
  exact ⟨s', hr, _, hs'⟩

open PycModel.DeclSkel PycModel.TypeModify PycModel.View PycModel.FullExpr PycModel.DeclParse PycModel.BuildDecl PycModel.Init in
/-- non-vacuity, brace initializers: `int a [ 2 ] [ 2 ] = { { 1 , x } , [ 1 ] = { } , } ;` - nested lists
stay nested, a designated item is a `NamedInitializer`, the trailing comma leaves no trace, the empty
list is located at its `{`, a non-empty one at its first item -/
example : ∃ s',
    run 200 .declaration
      (initState ([("INT", "int"), ("ID", "a"), ("LBRACKET", "["), ("INT_CONST_DEC", "2"), ("RBRACKET", "]"), ("LBRACKET", "["),
                   ("INT_CONST_DEC", "2"), ("RBRACKET", "]"), ("EQUALS", "="), ("LBRACE", "{"), ("LBRACE", "{"),
                   ("INT_CONST_DEC", "1"), ("COMMA", ","), ("ID", "x"), ("RBRACE", "}"), ("COMMA", ","), ("LBRACKET", "["),
                   ("INT_CONST_DEC", "1"), ("RBRACKET", "]"), ("EQUALS", "="), ("LBRACE", "{"),
                   ("RBRACE", "}"), ("COMMA", ","), ("RBRACE", "}"), ("SEMI", ";")].map (fun t => SEv.tok t.1 t.2) ++ [.eof]))
      = .ok [mk .Decl (tc 1) [.str "a", .list [], .list [], .list [], .list [],
               mk .ArrayDecl (tc 1) [
                 mk .ArrayDecl (tc 1) [
                   mk .TypeDecl (tc 1) [.str "a", .list [], .none, mk .IdentifierType (tc 0) [.list [.str "int"]]],
                   mk .Constant (tc 6) [.str "int", .str "2"], .list []],
                 mk .Constant (tc 3) [.str "int", .str "2"], .list []],
               mk .InitList (tc 11) [.list [
                 mk .InitList (tc 11) [.list [mk .Constant (tc 11) [.str "int", .str "1"], mk .ID (tc 13) [.str "x"]]],
                 mk .NamedInitializer none [.list [mk .Constant (tc 17) [.str "int", .str "1"]], mk .InitList (tc 20) [.list []]]]],
               .none]] s' ∧ (∃ env, SeesT env s' []) := by
  let c1 : X := .const "INT_CONST_DEC" "1" "int"
  let c2 : X := .const "INT_CONST_DEC" "2" "int"
  let init : I := .list (.cons [] (.list (.cons [] (.expr c1) (.cons [] (.expr (.id "x")) .nil)) false)
    (.cons [.index c1] (.list .nil false) .nil)) true
  let dc : Dcl :=
    { specs := [("INT", "int")],
      first := { d := .arr (.arr (.name "a") (some c2)) (some c2), init := some init },
      more := [] }
  have hc : ∀ (L : Nat) (c : X), c = c1 ∨ c = c2 → WFX L c := by
    intro L c h; rcases h with rfl | rfl <;> exact .const _ _ _ _ (by decide)
  have hnd : ∀ d ∈ ([] : List Desig), d.WF := by intro d h; cases h
  have hwf : WFDcl dc := by
    refine ⟨by simp [dc, SpecToks, typeSpecSimple], ?_, rfl, ⟨?_, ?_⟩, by intro it h; cases h⟩
    · intro t ht; simp only [dc, List.mem_singleton] at ht; subst ht; exact ⟨by decide, by decide⟩
    · refine .arr _ _ (.arr _ _ (.name _) rfl ?_) rfl ?_ <;> (intro e h; cases h; exact hc _ _ (.inr rfl))
    · intro i h; cases h
      refine .list _ _ _ _ (.cons _ _ _ hnd (.list _ _ _ _ (.cons _ _ _ hnd (.expr _ (hc _ _ (.inl rfl)))
        (.cons _ _ _ hnd (.expr _ (.id _ _)) .nil))) (.cons _ _ _ ?_ .empty .nil))
      intro d hd; simp only [List.mem_singleton] at hd; subst hd; exact hc 2 _ (.inl rfl)
  have hs := ParenExpr.seesT_init (dc.flat ++ [])
  obtain ⟨s', hr, hs', _⟩ := parse_declaration dc hwf (fun _ _ => rfl) _ [] hs 200 (by decide)
  exact ⟨s', hr, _, hs'⟩

end PycModel.C03
