import PycModel.Ast
/-!
# Model of `pycparser/c_generator.py` (`CGenerator`)

One function per `visit_*` / helper method; the only state is `indent_level`, threaded
explicitly.  Python exceptions are `GErr` results.  Recursion is on an explicit fuel (the
driver passes the size of the tree, which always suffices).
-/
namespace PycModel

inductive GErr
  | attribute (site : String)
  | type (site : String)
  | index (site : String)
  | assertion (site : String)
  | key (site : String)
  | fuel
  deriving Repr, Inhabited

/-- generator monad: indent level in, result and indent level out -/
def G (α : Type) := Int → Except GErr (α × Int)

instance : Monad G where
  pure a := fun i => .ok (a, i)
  bind m f := fun i => match m i with
    | .ok (a, i') => f a i'
    | .error e => .error e

def G.fail {α} (e : GErr) : G α := fun _ => .error e
def getIndent : G Int := fun i => .ok (i, i)
def setIndent (k : Int) : G Unit := fun _ => .ok ((), k)
def addIndent (k : Int) : G Unit := fun i => .ok ((), i + k)

def spaces (n : Int) : String := String.ofList (List.replicate n.toNat ' ')

def makeIndent : G String := do pure (spaces (← getIndent))

def fld (n : Val) (name : String) : G Val :=
  match n.getAttr name with
  | some v => pure v
  | none => G.fail (.attribute name)

def asStr (v : Val) (site : String) : G String :=
  match v with
  | .str s => pure s
  | _ => G.fail (.type site)

def asList (v : Val) (site : String) : G (List Val) :=
  match v with
  | .list l => pure l
  | .none => G.fail (.type site)
  | _ => G.fail (.type site)

/-- `" ".join(x)` for a list of strings -/
def joinStrs (v : Val) (site : String) : G String := do
  let l ← asList v site
  let ss ← l.mapM (asStr · site)
  pure (" ".intercalate ss)

def isSimpleNode (n : Val) : Bool :=
  n.isCls .Constant || n.isCls .ID || n.isCls .ArrayRef || n.isCls .StructRef || n.isCls .FuncCall

def precedenceMap : List (String × Nat) :=
  [("||", 0), ("&&", 1), ("|", 2), ("^", 3), ("&", 4), ("==", 5), ("!=", 5), (">", 6), (">=", 6),
   ("<", 6), ("<=", 6), (">>", 7), ("<<", 7), ("+", 8), ("-", 8), ("*", 9), ("/", 9), ("%", 9)]

def precOf (op : Val) : G Nat :=
  match op with
  | .str s => match precedenceMap.find? (·.1 == s) with
    | some (_, p) => pure p
    | none => G.fail (.key s)
  | _ => G.fail (.key "op")

/-- classes that have a `visit_<Class>` method (everything else goes to `generic_visit`) -/
def hasVisitMethod (c : Cls) : Bool := c != .EnumeratorList

structure GenCfg where
  reduceParentheses : Bool

mutual

/-- `visit` -/
def visit (cfg : GenCfg) : Nat → Val → G String
  | 0, _ => G.fail .fuel
  | fuel+1, n =>
    match n with
    | .none => pure ""                               -- generic_visit(None)
    | .str _ => G.fail (.attribute "str.children")
    | .list _ => G.fail (.attribute "list.children")
    | .node c _ _ =>
      -- `_visit_operand`: an expression alone between delimiters the construct provides itself;
      -- only a statement expression needs parentheses of its own there
      let vo (x : Val) : G String := do
        if x.isCls .Compound then pure ("(" ++ (← visit cfg fuel x) ++ ")") else visit cfg fuel x
      match c with
      | .Constant => do asStr (← fld n "value") "Constant.value"
      | .ID => do asStr (← fld n "name") "ID.name"
      | .Pragma => do
        let s ← fld n "string"
        if s.isCls .Constant then pure ("_Pragma(" ++ (← visit cfg fuel s) ++ ")")
        else if s.truthy then
          pure ("#pragma " ++ (← asStr s "Pragma.string"))
        else pure "#pragma"
      | .ArrayRef => do
        let a ← parenUnlessSimple cfg fuel (← fld n "name")
        pure (a ++ "[" ++ (← vo (← fld n "subscript")) ++ "]")
      | .StructRef => do
        let nm ← fld n "name"
        let a ← parenUnlessSimple cfg fuel nm
        let a := if nm.isCls .Constant then "(" ++ a ++ ")" else a
        let t ← asStr (← fld n "type") "StructRef.type"
        pure (a ++ t ++ (← visit cfg fuel (← fld n "field")))
      | .FuncCall => do
        let f ← parenUnlessSimple cfg fuel (← fld n "name")
        let a ← fld n "args"
        let args ← if a.isNone then pure "" else visit cfg fuel a
        pure (f ++ "(" ++ args ++ ")")
      | .UnaryOp => do
        let op ← asStr (← fld n "op") "UnaryOp.op"
        let e ← fld n "expr"
        if op == "sizeof" then pure ("sizeof(" ++ (← vo e) ++ ")")
        else if op == "p++" then pure ((← parenUnlessSimple cfg fuel e) ++ "++")
        else if op == "p--" then pure ((← parenUnlessSimple cfg fuel e) ++ "--")
        else pure (op ++ (← parenUnlessSimple cfg fuel e))
      | .BinaryOp => do
        let op ← fld n "op"
        let l ← fld n "left"
        let r ← fld n "right"
        let lstr ← visitExpr cfg fuel l
        let lParen ← (do
          if isSimpleNode l then pure false
          else if cfg.reduceParentheses && l.isCls .BinaryOp then
            pure (!((← precOf (← fld l "op")) ≥ (← precOf op)))
          else pure true)
        let lstr := if lParen then "(" ++ lstr ++ ")" else lstr
        let rstr ← visitExpr cfg fuel r
        let rParen ← (do
          if isSimpleNode r then pure false
          else if cfg.reduceParentheses && r.isCls .BinaryOp then
            pure (!((← precOf (← fld r "op")) > (← precOf op)))
          else pure true)
        let rstr := if rParen then "(" ++ rstr ++ ")" else rstr
        pure (lstr ++ " " ++ (← asStr op "BinaryOp.op") ++ " " ++ rstr)
      | .Assignment => do
        let rv ← fld n "rvalue"
        let rs ← visitExpr cfg fuel rv
        let rs := if rv.isCls .Assignment then "(" ++ rs ++ ")" else rs
        let lv ← fld n "lvalue"
        let ls ← visitExpr cfg fuel lv
        let ls := if lv.isCls .Assignment then "(" ++ ls ++ ")" else ls
        pure (ls ++ " " ++ (← asStr (← fld n "op") "Assignment.op") ++ " " ++ rs)
      | .IdentifierType => do joinStrs (← fld n "names") "IdentifierType.names"
      | .Decl => visitDecl cfg fuel n false
      | .DeclList => do
        let ds ← asList (← fld n "decls") "DeclList.decls"
        match ds with
        | [] => G.fail (.index "n.decls[0]")
        | d0 :: rest =>
          let s ← visit cfg fuel d0
          if rest.isEmpty then pure s else
          let more ← rest.mapM fun d => visitDecl cfg fuel d true
          pure (s ++ ", " ++ ", ".intercalate more)
      | .Typedef => do
        let st ← fld n "storage"
        let s ← if st.truthy then do pure ((← joinStrs st "storage") ++ " ") else pure ""
        pure (s ++ (← generateType cfg fuel (← fld n "type") [] true))
      | .Cast => do
        let t ← generateType cfg fuel (← fld n "to_type") [] false
        pure ("(" ++ t ++ ") " ++ (← parenUnlessSimple cfg fuel (← fld n "expr")))
      | .ExprList => do
        let es ← asList (← fld n "exprs") "ExprList.exprs"
        pure (", ".intercalate (← es.mapM (visitExpr cfg fuel)))
      | .InitList => do
        let es ← asList (← fld n "exprs") "InitList.exprs"
        pure (", ".intercalate (← es.mapM (visitExpr cfg fuel)))
      | .Enum => generateStructUnionEnum cfg fuel n "enum"
      | .Alignas => do pure ("_Alignas(" ++ (← visitConstantExpr cfg fuel (← fld n "alignment")) ++ ")")
      | .Enumerator => do
        let v ← fld n "value"
        let nm ← asStr (← fld n "name") "Enumerator.name"
        if !v.truthy then pure ((← makeIndent) ++ nm ++ ",\n")
        else
          let ind ← makeIndent
          pure (ind ++ nm ++ " = " ++ (← visitConstantExpr cfg fuel v) ++ ",\n")
      | .FuncDef => do
        let decl ← visit cfg fuel (← fld n "decl")
        setIndent 0
        let body ← visit cfg fuel (← fld n "body")
        let pd ← fld n "param_decls"
        if pd.truthy then
          let ps ← asList pd "param_decls"
          let k ← ps.mapM (visit cfg fuel)
          pure (decl ++ "\n" ++ ";\n".intercalate k ++ ";\n" ++ body ++ "\n")
        else pure (decl ++ "\n" ++ body ++ "\n")
      | .FileAST => do
        let ext ← asList (← fld n "ext") "FileAST.ext"
        let parts ← ext.mapM fun e => do
          if e.isCls .FuncDef then visit cfg fuel e
          else if e.isCls .Pragma then do pure ((← visit cfg fuel e) ++ "\n")
          else do pure ((← visit cfg fuel e) ++ ";\n")
        pure (String.join parts)
      | .Compound => do
        let s := (← makeIndent) ++ "{\n"
        addIndent 2
        let items ← fld n "block_items"
        let body ← if items.truthy then do
            let l ← asList items "block_items"
            pure (String.join (← l.mapM fun st => generateStmt cfg fuel st false))
          else pure ""
        addIndent (-2)
        pure (s ++ body ++ (← makeIndent) ++ "}\n")
      | .CompoundLiteral => do
        pure ("(" ++ (← visit cfg fuel (← fld n "type")) ++ "){" ++ (← visit cfg fuel (← fld n "init")) ++ "}")
      | .EmptyStatement => pure ";"
      | .ParamList => do
        let ps ← asList (← fld n "params") "ParamList.params"
        pure (", ".intercalate (← ps.mapM (visit cfg fuel)))
      | .Return => do
        let e ← fld n "expr"
        if e.truthy then pure ("return " ++ (← vo e) ++ ";") else pure "return;"
      | .Break => pure "break;"
      | .Continue => pure "continue;"
      | .TernaryOp => do
        let c ← visitExpr cfg fuel (← fld n "cond")
        let t ← visitExpr cfg fuel (← fld n "iftrue")
        let f ← visitExpr cfg fuel (← fld n "iffalse")
        pure ("(" ++ c ++ ") ? (" ++ t ++ ") : (" ++ f ++ ")")
      | .If => do
        let c ← fld n "cond"
        let cs ← if c.truthy then vo c else pure ""
        let s := "if (" ++ cs ++ ")\n"
        let t ← generateStmt cfg fuel (← fld n "iftrue") true
        let f ← fld n "iffalse"
        if f.truthy then
          let ind ← makeIndent
          let fs ← generateStmt cfg fuel f true
          pure (s ++ t ++ ind ++ "else\n" ++ fs)
        else pure (s ++ t)
      | .For => do
        let i ← fld n "init"
        let c ← fld n "cond"
        let x ← fld n "next"
        let is ← if i.truthy then vo i else pure ""
        let cs ← if c.truthy then do pure (" " ++ (← vo c)) else pure ""
        let xs ← if x.truthy then do pure (" " ++ (← vo x)) else pure ""
        let body ← generateStmt cfg fuel (← fld n "stmt") true
        pure ("for (" ++ is ++ ";" ++ cs ++ ";" ++ xs ++ ")\n" ++ body)
      | .While => do
        let c ← fld n "cond"
        let cs ← if c.truthy then vo c else pure ""
        let body ← generateStmt cfg fuel (← fld n "stmt") true
        pure ("while (" ++ cs ++ ")\n" ++ body)
      | .DoWhile => do
        let body ← generateStmt cfg fuel (← fld n "stmt") true
        let ind ← makeIndent
        let c ← fld n "cond"
        let cs ← if c.truthy then vo c else pure ""
        pure ("do\n" ++ body ++ ind ++ "while (" ++ cs ++ ");")
      | .StaticAssert => do
        let c ← visitConstantExpr cfg fuel (← fld n "cond")
        let m ← fld n "message"
        if m.truthy then pure ("_Static_assert(" ++ c ++ "," ++ (← visit cfg fuel m) ++ ")")
        else pure ("_Static_assert(" ++ c ++ ")")
      | .Switch => do
        let c ← vo (← fld n "cond")
        let body ← generateStmt cfg fuel (← fld n "stmt") true
        pure ("switch (" ++ c ++ ")\n" ++ body)
      | .Case => do
        let e ← visitConstantExpr cfg fuel (← fld n "expr")
        let ss ← asList (← fld n "stmts") "Case.stmts"
        let body ← ss.mapM fun st => generateStmt cfg fuel st true
        pure ("case " ++ e ++ ":\n" ++ String.join body)
      | .Default => do
        let ss ← asList (← fld n "stmts") "Default.stmts"
        let body ← ss.mapM fun st => generateStmt cfg fuel st true
        pure ("default:\n" ++ String.join body)
      | .Label => do
        let nm ← asStr (← fld n "name") "Label.name"
        pure (nm ++ ":\n" ++ (← generateStmt cfg fuel (← fld n "stmt") false))
      | .Goto => do pure ("goto " ++ (← asStr (← fld n "name") "Goto.name") ++ ";")
      | .EllipsisParam => pure "..."
      | .Struct => generateStructUnionEnum cfg fuel n "struct"
      | .Union => generateStructUnionEnum cfg fuel n "union"
      | .Typename => do generateType cfg fuel (← fld n "type") [] true
      | .NamedInitializer => do
        let names ← asList (← fld n "name") "NamedInitializer.name"
        let parts ← names.mapM fun nm => do
          if nm.isCls .ID then do pure ("." ++ (← asStr (← fld nm "name") "ID.name"))
          else do pure ("[" ++ (← visitConstantExpr cfg fuel nm) ++ "]")
        pure (String.join parts ++ " = " ++ (← visitExpr cfg fuel (← fld n "expr")))
      | .FuncDecl => generateType cfg fuel n [] true
      | .ArrayDecl => generateType cfg fuel n [] false
      | .TypeDecl => generateType cfg fuel n [] false
      | .PtrDecl => generateType cfg fuel n [] false
      | .EnumeratorList => genericVisit cfg fuel n

/-- `generic_visit`: concatenation over `children()` -/
def genericVisit (cfg : GenCfg) : Nat → Val → G String
  | 0, _ => G.fail .fuel
  | fuel+1, n =>
    match n with
    | .node c _ fs => do
      -- single children first (skipping None), then sequences
      let pairs := (c.fields.zip fs)
      let singles := pairs.filterMap fun (f, v) => if f.2 == .child && !v.isNone then some v else none
      let seqs := pairs.filterMap fun (f, v) => if f.2 == .seq then some v else none
      let s1 ← singles.mapM (visit cfg fuel)
      let s2 ← seqs.mapM fun v => do
        if v.truthy then
          let l ← asList v "seq child"
          pure (String.join (← l.mapM (visit cfg fuel)))
        else pure ""
      pure (String.join s1 ++ String.join s2)
    | _ => G.fail (.attribute "children")

/-- `_visit_expr` -/
def visitExpr (cfg : GenCfg) : Nat → Val → G String
  | 0, _ => G.fail .fuel
  | fuel+1, n => do
    if n.isCls .InitList then pure ("{" ++ (← visit cfg fuel n) ++ "}")
    else if n.isCls .ExprList || n.isCls .Compound then pure ("(" ++ (← visit cfg fuel n) ++ ")")
    else visit cfg fuel n

/-- `_visit_constant_expr` -/
def visitConstantExpr (cfg : GenCfg) : Nat → Val → G String
  | 0, _ => G.fail .fuel
  | fuel+1, n => do
    let s ← visitExpr cfg fuel n
    if n.isCls .Assignment then pure ("(" ++ s ++ ")") else pure s

/-- `_parenthesize_unless_simple` -/
def parenUnlessSimple (cfg : GenCfg) : Nat → Val → G String
  | 0, _ => G.fail .fuel
  | fuel+1, n => do
    let s ← visitExpr cfg fuel n
    if !isSimpleNode n then pure ("(" ++ s ++ ")") else pure s

/-- `visit_Decl(n, no_type)` -/
def visitDecl (cfg : GenCfg) : Nat → Val → Bool → G String
  | 0, _, _ => G.fail .fuel
  | fuel+1, n, noType => do
    let s ← if noType then generateType cfg fuel (← fld n "type") [] true false else generateDecl cfg fuel n
    let b ← fld n "bitsize"
    let s ← if b.truthy then do pure (s ++ " : " ++ (← visitConstantExpr cfg fuel b)) else pure s
    let i ← fld n "init"
    if i.truthy then pure (s ++ " = " ++ (← visitExpr cfg fuel i)) else pure s

/-- `_generate_decl` -/
def generateDecl (cfg : GenCfg) : Nat → Val → G String
  | 0, _ => G.fail .fuel
  | fuel+1, n => do
    let fs ← fld n "funcspec"
    let s ← if fs.truthy then do pure ((← joinStrs fs "funcspec") ++ " ") else pure ""
    let st ← fld n "storage"
    let s ← if st.truthy then do pure (s ++ (← joinStrs st "storage") ++ " ") else pure s
    let al ← fld n "align"
    let s ← if al.truthy then do
        let l ← asList al "align"
        pure (s ++ " ".intercalate (← l.mapM (visit cfg fuel)) ++ " ")
      else pure s
    let q ← fld n "quals"
    let ty ← fld n "type"
    let s ← if q.truthy && (ty.isCls .Struct || ty.isCls .Union || ty.isCls .Enum || ty.isCls .IdentifierType) then do
        pure (s ++ (← joinStrs q "Decl.quals") ++ " ")
      else pure s
    pure (s ++ (← generateType cfg fuel ty [] true))

/-- `_generate_type(n, modifiers, emit_declname)` -/
def generateType (cfg : GenCfg) : Nat → Val → List Val → Bool → (emitType : Bool := true) → G String
  | 0, _, _, _, _ => G.fail .fuel
  | fuel+1, n, modifiers, emitDeclname, emitType => do
    if n.isCls .TypeDecl then
      let q ← fld n "quals"
      let s ← if q.truthy then do pure ((← joinStrs q "quals") ++ " ") else pure ""
      let s := s ++ (← visit cfg fuel (← fld n "type"))
      let dn ← fld n "declname"
      let nstr0 ← if dn.truthy && emitDeclname then asStr dn "declname" else pure ""
      let nstr ← applyModifiers cfg fuel modifiers 0 Val.none nstr0
      if !emitType then pure nstr
      else if !nstr.isEmpty then pure (s ++ " " ++ nstr) else pure s
    else if n.isCls .Decl then generateDecl cfg fuel (← fld n "type")
    else if n.isCls .Typename then generateType cfg fuel (← fld n "type") [] emitDeclname
    else if n.isCls .IdentifierType then do pure ((← joinStrs (← fld n "names") "names") ++ " ")
    else if n.isCls .ArrayDecl || n.isCls .PtrDecl || n.isCls .FuncDecl then
      generateType cfg fuel (← fld n "type") (modifiers ++ [n]) emitDeclname emitType
    else visit cfg fuel n

/-- the `for i, modifier in enumerate(modifiers)` loop of `_generate_type`;
`prev` is `modifiers[i-1]` (meaningful when `i != 0`) -/
def applyModifiers (cfg : GenCfg) : Nat → List Val → Nat → Val → String → G String
  | 0, _, _, _, _ => G.fail .fuel
  | _, [], _, _, nstr => pure nstr
  | fuel+1, m :: rest, i, prev, nstr => do
    let wrap := i != 0 && prev.isCls .PtrDecl
    if m.isCls .ArrayDecl then
      let nstr := if wrap then "(" ++ nstr ++ ")" else nstr
      let dq ← fld m "dim_quals"
      let qs ← if dq.truthy then do pure ((← joinStrs dq "dim_quals") ++ " ") else pure ""
      let dim ← fld m "dim"
      let ds ← if !dim.isNone then visitExpr cfg fuel dim else pure ""
      applyModifiers cfg fuel rest (i + 1) m (nstr ++ "[" ++ qs ++ ds ++ "]")
    else if m.isCls .FuncDecl then
      let nstr := if wrap then "(" ++ nstr ++ ")" else nstr
      let a ← fld m "args"
      let args ← if !a.isNone then visit cfg fuel a else pure ""
      applyModifiers cfg fuel rest (i + 1) m (nstr ++ "(" ++ args ++ ")")
    else if m.isCls .PtrDecl then
      let q ← fld m "quals"
      if q.truthy then
        let quals ← joinStrs q "PtrDecl.quals"
        let suffix := if !nstr.isEmpty then " " ++ nstr else ""
        applyModifiers cfg fuel rest (i + 1) m ("* " ++ quals ++ suffix)
      else applyModifiers cfg fuel rest (i + 1) m ("*" ++ nstr)
    else applyModifiers cfg fuel rest (i + 1) m nstr

/-- `_generate_struct_union_enum` -/
def generateStructUnionEnum (cfg : GenCfg) : Nat → Val → String → G String
  | 0, _, _ => G.fail .fuel
  | fuel+1, n, name => do
    let isSU := name == "struct" || name == "union"
    let members ← (do
      if isSU then
        if !(n.isCls .Struct || n.isCls .Union) then G.fail (.assertion "isinstance(n, (Struct, Union))")
        else fld n "decls"
      else
        if !n.isCls .Enum then G.fail (.assertion "isinstance(n, Enum)") else
        let vs ← fld n "values"
        if vs.isNone then pure Val.none else fld vs "enumerators")
    let nm ← fld n "name"
    let nameStr ← if nm.truthy then asStr nm "name" else pure ""
    let s := name ++ " " ++ nameStr
    if members.isNone then pure s else
    let ind ← makeIndent
    addIndent 2
    let l ← asList members "members"
    let body ← (do
      if isSU then pure (String.join (← l.mapM fun d => generateStmt cfg fuel d false))
      else
        let all := String.join (← l.mapM (visit cfg fuel))
        pure (String.ofList (all.toList.take (all.length - 2)) ++ "\n"))
    addIndent (-2)
    pure (s ++ "\n" ++ ind ++ "{\n" ++ body ++ (← makeIndent) ++ "}")

/-- `_generate_stmt` -/
def generateStmt (cfg : GenCfg) : Nat → Val → Bool → G String
  | 0, _, _ => G.fail .fuel
  | fuel+1, n, addInd => do
    if addInd then addIndent 2
    let indent ← makeIndent
    if addInd then addIndent (-2)
    let semi := [Cls.Decl, .Assignment, .Cast, .UnaryOp, .BinaryOp, .TernaryOp, .FuncCall, .ArrayRef,
      .StructRef, .Constant, .ID, .Typedef, .ExprList, .CompoundLiteral]
    match n.cls? with
    | some c =>
      if semi.contains c then pure (indent ++ (← visit cfg fuel n) ++ ";\n")
      else if c == .Compound then visit cfg fuel n
      else if c == .If then pure (indent ++ (← visit cfg fuel n))
      else pure (indent ++ (← visit cfg fuel n) ++ "\n")
    | none => pure (indent ++ (← visit cfg fuel n) ++ "\n")

end

/-- `CGenerator(reduce_parentheses).visit(ast)` on a fresh generator -/
def generate (rp : Bool) (ast : Val) : Except GErr String :=
  match visit ⟨rp⟩ (8 * ast.size + 64) ast 0 with
  | .ok (s, _) => .ok s
  | .error e => .error e

end PycModel
