import PycModel.Parser.Stmt
import PycModel.Generator
/-!
# Instance state machines (C12, C13)

A `CParser` instance is its `PState` (scope stack, token stream, lexer position); `parse()` first
re-initialises every field (`c_parser.py:104-106`, `CLexer.input`) and then runs the grammar.
-/
namespace PycModel

/-- `self._scope_stack = [dict()]; self.clex.input(text, filename); self._tokens = _TokenStream(self.clex)` -/
def reinit (old : PState) (evs : List SEv) : PState :=
  { old with raw := evs, pulled := 0, fileRef := 0, buf := #[], idx := 0, scopes := [[]],
             lexCalls := 0, ticks := 0 }

/-- the grammar part of `parse`, started from a given state -/
def parseFrom (fuel : Nat) (s : PState) : CoreOutcome × PState :=
  let p : P Val := do
    let ext ← (do
      if (← peek).isNone then pure [] else run fuel (.translationUnitLoop []))
    match ← peek with
    | some tok => parseError ("before: " ++ tok.val) (.coord (← tokCoord tok))
    | none => pure (mk .FileAST none [.list ext])
  match p s with
  | .ok v s' => (.ast v, s')
  | .err (.parse loc msg) => (.parseError loc msg, s)     -- state after a failure: whatever is left
  | .err (.lex i) => (.lexError i, s)
  | .err (.crash k site) => (.crash k site, s)
  | .err .fuel => (.fuel, s)

/-- one `parse(text, filename)` call on an instance with arbitrary prior state -/
def parseCall (cfg : LexCfg) (fuel : Nat) (inst : PState) (text file : String) : Outcome × PState :=
  let evs := scan cfg (fun _ => false) text.toList file
  let r := parseFrom fuel (reinit inst (strip evs))
  (finish (infos evs) file r.1, r.2)

/-- a sequence of calls on one instance: the list of results -/
def runCalls (cfg : LexCfg) (fuel : Nat) : PState → List (String × String) → List Outcome
  | _, [] => []
  | inst, (t, f) :: rest =>
    let r := parseCall cfg fuel inst t f
    r.1 :: runCalls cfg fuel r.2 rest

/-! ## a generic family of deterministic machines with disjoint state (C13) -/

structure Machine (σ ι ο : Type) where
  step : σ → ι → σ × ο

/-- run machine `i` alone on its own inputs -/
def Machine.runSolo {σ ι ο} (m : Machine σ ι ο) : σ → List ι → List ο
  | _, [] => []
  | s, x :: xs => let r := m.step s x; r.2 :: m.runSolo r.1 xs

/-- interleaved run of `n` machines: a schedule is a list of (machine index, input) -/
def runSched {σ ι ο} (ms : Nat → Machine σ ι ο) : (Nat → σ) → List (Nat × ι) → List (Nat × ο)
  | _, [] => []
  | st, (i, x) :: rest =>
    let r := (ms i).step (st i) x
    (i, r.2) :: runSched ms (fun j => if j = i then r.1 else st j) rest

end PycModel
