import Lean
/-! `#audit_ns Foo.Bar` prints, for every theorem whose name has the given prefix, the axioms it
depends on — one line `AXIOMS <name> : a b c`.  Used by the check front-end on every run. -/
open Lean Elab Command

elab "#audit_ns " ns:ident : command => do
  let env ← getEnv
  let pre := ns.getId
  let mut names : Array Name := #[]
  for (n, ci) in env.constants.toList do
    if pre.isPrefixOf n && !n.isInternal then
      match ci with
      | .thmInfo _ => names := names.push n
      | _ => pure ()
  let sorted := names.qsort (fun a b => a.toString < b.toString)
  for n in sorted do
    let axs ← liftCoreM (collectAxioms n)
    let axs := axs.qsort (fun a b => a.toString < b.toString)
    logInfo m!"AXIOMS {n} : {" ".intercalate (axs.toList.map toString)}"
