/-! Line-protocol helpers shared by the driver (escaping, splitting). -/
namespace PycModel.Proto

def escape (s : String) : String :=
  s.foldl (fun acc c =>
    if c == '\\' then acc ++ "\\\\"
    else if c == '\t' then acc ++ "\\t"
    else if c == '\n' then acc ++ "\\n"
    else if c == '\r' then acc ++ "\\r"
    else if c == '\x1f' then acc ++ "\\u"
    else acc.push c) ""

def unescapeL : List Char → List Char
  | '\\' :: '\\' :: s => '\\' :: unescapeL s
  | '\\' :: 't' :: s => '\t' :: unescapeL s
  | '\\' :: 'n' :: s => '\n' :: unescapeL s
  | '\\' :: 'r' :: s => '\r' :: unescapeL s
  | '\\' :: 'u' :: s => '\x1f' :: unescapeL s
  | c :: s => c :: unescapeL s
  | [] => []

def unescape (s : String) : String := String.ofList (unescapeL s.toList)

/-- join fields of one record with U+001F -/
def rec (fields : List String) : String := "\x1f".intercalate (fields.map escape)

end PycModel.Proto
