/-!
# A model of the part of `cpp` the fake libc headers need

A header is described by its file-level include guard (if any), the files it includes (all
includes come before any other content), and whether it has content of its own.  Preprocessing a
list of `#include` lines is then a walk that emits each guarded body the first time its guard is
not yet defined.
-/
namespace PycModel.Cpp

structure FileDesc where
  name : String
  guard : Option String
  includes : List String
  hasBody : Bool
  deriving Repr, DecidableEq, Inhabited

abbrev FS := List FileDesc

def lookup (fs : FS) (n : String) : Option FileDesc := fs.find? (·.name == n)

mutual
/-- bodies emitted (by file name, in order) and the guards defined afterwards -/
def expandFile (fs : FS) : Nat → List String → String → List String × List String
  | 0, d, _ => ([], d)
  | fuel+1, d, f =>
    match lookup fs f with
    | none => ([], d)
    | some fd =>
      match fd.guard with
      | some g =>
        if d.contains g then ([], d)
        else
          let r := expandList fs fuel (g :: d) fd.includes
          (r.1 ++ (if fd.hasBody then [f] else []), r.2)
      | none =>
        let r := expandList fs fuel d fd.includes
        (r.1 ++ (if fd.hasBody then [f] else []), r.2)
def expandList (fs : FS) : Nat → List String → List String → List String × List String
  | 0, d, _ => ([], d)
  | _, d, [] => ([], d)
  | fuel+1, d, f :: rest =>
    let r1 := expandFile fs fuel d f
    let r2 := expandList fs fuel r1.2 rest
    (r1.1 ++ r2.1, r2.2)
end

/-- output of preprocessing a file that includes the given headers, in order -/
def pp (fs : FS) (hs : List String) : List String := (expandList fs (2 * hs.length + 8) [] hs).1

end PycModel.Cpp
