/-!
# Backtracking regular expressions with Python `re` match semantics

`Re` is the abstract syntax produced by `tools/extract.py` from the *compiled* patterns of
`pycparser/c_lexer.py` (through `re._parser.parse`).  `ends r s` is the list of all lengths of
prefixes of `s` that `r` can match, **in the priority order in which Python's backtracking matcher
would try them** (ordered alternation, greedy repetition).  `re.match` corresponds to `(ends r s).head?`.

The function only ever looks at the suffix `s` it is given: a pattern cannot look behind.
-/
namespace PycModel

/-- character-class item -/
inductive CC where
  | ch (c : Char)
  | range (lo hi : Char)
  | digit          -- `\d`  (Unicode Nd for `str` patterns)
  | word           -- `\w`
  | notWord        -- `\W`
  deriving Repr, DecidableEq, Inhabited

/-- Unicode predicates the patterns depend on (`\d`, `\w`); instantiated from a regenerated table. -/
structure UniCfg where
  isNd : Char → Bool
  isWord : Char → Bool

def CC.test (u : UniCfg) (c : Char) : CC → Bool
  | .ch d => c == d
  | .range lo hi => lo.val ≤ c.val && c.val ≤ hi.val
  | .digit => u.isNd c
  | .word => u.isWord c
  | .notWord => !u.isWord c

inductive Re where
  | eps
  | cls (neg : Bool) (items : List CC)      -- one character
  | seq (a b : Re)
  | alt (a b : Re)
  | rep (min : Nat) (max : Option Nat) (r : Re)   -- greedy
  | nla (r : Re)                             -- negative look-ahead `(?!r)`
  | eos                                      -- `$` (no MULTILINE): at end, or before a final '\n'
  | fail
  deriving Repr, Inhabited

def clsTest (u : UniCfg) (neg : Bool) (items : List CC) (c : Char) : Bool :=
  (items.any (CC.test u c)) != neg

/-- greedy repetition of a body given as a function from suffix to its ends; `fuel` bounds the
    number of iterations (every iteration must consume at least one character). -/
def repEnds (body : List Char → List Nat) : Nat → Nat → Option Nat → List Char → List Nat
  | 0, min, _, _ => if min == 0 then [0] else []
  | fuel+1, min, max, s =>
    let more : List Nat :=
      if max == some 0 then [] else
        ((body s).filter (· > 0)).flatMap fun n =>
          (repEnds body fuel (min - 1) (max.map (· - 1)) (s.drop n)).map (n + ·)
    more ++ (if min == 0 then [0] else [])

def ends (u : UniCfg) : Re → List Char → List Nat
  | .eps, _ => [0]
  | .fail, _ => []
  | .cls neg items, s =>
    match s with
    | [] => []
    | c :: _ => if clsTest u neg items c then [1] else []
  | .seq a b, s => (ends u a s).flatMap fun n => (ends u b (s.drop n)).map (n + ·)
  | .alt a b, s => ends u a s ++ ends u b s
  | .rep min max r, s => repEnds (ends u r) s.length min max s
  | .nla r, s => if (ends u r s).isEmpty then [0] else []
  | .eos, s => if s.isEmpty || s == ['\n'] then [0] else []

/-- `re.match(r, s)` : length of the match Python reports, if any -/
def reMatch (u : UniCfg) (r : Re) (s : List Char) : Option Nat := (ends u r s).head?

/-! ## syntactic analyses used as decidable side conditions of the scanner theorems -/

/-- a lower bound on the length of every match -/
def Re.minLen : Re → Nat
  | .eps => 0 | .fail => 0 | .cls _ _ => 1
  | .seq a b => a.minLen + b.minLen
  | .alt a b => min a.minLen b.minLen
  | .rep mn _ r => mn * r.minLen
  | .nla _ => 0 | .eos => 0

/-- the class item cannot match the character `c` -/
def CC.excludes (u : UniCfg) (c : Char) : CC → Bool
  | .ch d => d != c
  | .range lo hi => !(lo.val ≤ c.val && c.val ≤ hi.val)
  | .digit => !u.isNd c
  | .word => !u.isWord c
  | .notWord => u.isWord c

/-- no match of the pattern can contain the character `c` (sufficient syntactic condition) -/
def Re.avoids (u : UniCfg) (c : Char) : Re → Bool
  | .eps => true | .fail => true
  | .cls false items => items.all (CC.excludes u c)
  | .cls true items => items.any (fun i => i == .ch c)
  | .seq a b => a.avoids u c && b.avoids u c
  | .alt a b => a.avoids u c && b.avoids u c
  | .rep _ _ r => r.avoids u c
  | .nla _ => true | .eos => true

end PycModel
