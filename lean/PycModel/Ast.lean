/-!
# AST values

`Val` is a dynamically typed value as the Python code handles it: `None`, a string, a list, or a
node object of one of the 49 classes with its fields *in `__slots__` order* (coord kept apart).
The class table `Cls.fields` is model source (written from `_c_ast.cfg`); the obligation
`C14.impl_classes` checks it against the table regenerated from the live classes on every run.
-/
namespace PycModel

inductive Cls where
  | ArrayDecl
  | ArrayRef
  | Assignment
  | Alignas
  | BinaryOp
  | Break
  | Case
  | Cast
  | Compound
  | CompoundLiteral
  | Constant
  | Continue
  | Decl
  | DeclList
  | Default
  | DoWhile
  | EllipsisParam
  | EmptyStatement
  | Enum
  | Enumerator
  | EnumeratorList
  | ExprList
  | FileAST
  | For
  | FuncCall
  | FuncDecl
  | FuncDef
  | Goto
  | ID
  | IdentifierType
  | If
  | InitList
  | Label
  | NamedInitializer
  | ParamList
  | PtrDecl
  | Return
  | StaticAssert
  | Struct
  | StructRef
  | Switch
  | TernaryOp
  | TypeDecl
  | Typedef
  | Typename
  | UnaryOp
  | Union
  | While
  | Pragma
  deriving DecidableEq, Repr, Inhabited

def Cls.name : Cls → String
  | .ArrayDecl => "ArrayDecl"
  | .ArrayRef => "ArrayRef"
  | .Assignment => "Assignment"
  | .Alignas => "Alignas"
  | .BinaryOp => "BinaryOp"
  | .Break => "Break"
  | .Case => "Case"
  | .Cast => "Cast"
  | .Compound => "Compound"
  | .CompoundLiteral => "CompoundLiteral"
  | .Constant => "Constant"
  | .Continue => "Continue"
  | .Decl => "Decl"
  | .DeclList => "DeclList"
  | .Default => "Default"
  | .DoWhile => "DoWhile"
  | .EllipsisParam => "EllipsisParam"
  | .EmptyStatement => "EmptyStatement"
  | .Enum => "Enum"
  | .Enumerator => "Enumerator"
  | .EnumeratorList => "EnumeratorList"
  | .ExprList => "ExprList"
  | .FileAST => "FileAST"
  | .For => "For"
  | .FuncCall => "FuncCall"
  | .FuncDecl => "FuncDecl"
  | .FuncDef => "FuncDef"
  | .Goto => "Goto"
  | .ID => "ID"
  | .IdentifierType => "IdentifierType"
  | .If => "If"
  | .InitList => "InitList"
  | .Label => "Label"
  | .NamedInitializer => "NamedInitializer"
  | .ParamList => "ParamList"
  | .PtrDecl => "PtrDecl"
  | .Return => "Return"
  | .StaticAssert => "StaticAssert"
  | .Struct => "Struct"
  | .StructRef => "StructRef"
  | .Switch => "Switch"
  | .TernaryOp => "TernaryOp"
  | .TypeDecl => "TypeDecl"
  | .Typedef => "Typedef"
  | .Typename => "Typename"
  | .UnaryOp => "UnaryOp"
  | .Union => "Union"
  | .While => "While"
  | .Pragma => "Pragma"

def Cls.all : List Cls := [.ArrayDecl, .ArrayRef, .Assignment, .Alignas, .BinaryOp, .Break, .Case, .Cast, .Compound, .CompoundLiteral, .Constant, .Continue, .Decl, .DeclList, .Default, .DoWhile, .EllipsisParam, .EmptyStatement, .Enum, .Enumerator, .EnumeratorList, .ExprList, .FileAST, .For, .FuncCall, .FuncDecl, .FuncDef, .Goto, .ID, .IdentifierType, .If, .InitList, .Label, .NamedInitializer, .ParamList, .PtrDecl, .Return, .StaticAssert, .Struct, .StructRef, .Switch, .TernaryOp, .TypeDecl, .Typedef, .Typename, .UnaryOp, .Union, .While, .Pragma]

inductive FieldKind | attr | child | seq
  deriving DecidableEq, Repr, Inhabited

/-- `_c_ast.cfg`: one entry per field, in order; `*` = child, `**` = child sequence, bare = attribute -/
def Cls.fields : Cls → List (String × FieldKind)
  | .ArrayDecl => [("type", .child), ("dim", .child), ("dim_quals", .attr)]
  | .ArrayRef => [("name", .child), ("subscript", .child)]
  | .Assignment => [("op", .attr), ("lvalue", .child), ("rvalue", .child)]
  | .Alignas => [("alignment", .child)]
  | .BinaryOp => [("op", .attr), ("left", .child), ("right", .child)]
  | .Break => []
  | .Case => [("expr", .child), ("stmts", .seq)]
  | .Cast => [("to_type", .child), ("expr", .child)]
  | .Compound => [("block_items", .seq)]
  | .CompoundLiteral => [("type", .child), ("init", .child)]
  | .Constant => [("type", .attr), ("value", .attr)]
  | .Continue => []
  | .Decl => [("name", .attr), ("quals", .attr), ("align", .attr), ("storage", .attr), ("funcspec", .attr), ("type", .child), ("init", .child), ("bitsize", .child)]
  | .DeclList => [("decls", .seq)]
  | .Default => [("stmts", .seq)]
  | .DoWhile => [("cond", .child), ("stmt", .child)]
  | .EllipsisParam => []
  | .EmptyStatement => []
  | .Enum => [("name", .attr), ("values", .child)]
  | .Enumerator => [("name", .attr), ("value", .child)]
  | .EnumeratorList => [("enumerators", .seq)]
  | .ExprList => [("exprs", .seq)]
  | .FileAST => [("ext", .seq)]
  | .For => [("init", .child), ("cond", .child), ("next", .child), ("stmt", .child)]
  | .FuncCall => [("name", .child), ("args", .child)]
  | .FuncDecl => [("args", .child), ("type", .child)]
  | .FuncDef => [("decl", .child), ("param_decls", .seq), ("body", .child)]
  | .Goto => [("name", .attr)]
  | .ID => [("name", .attr)]
  | .IdentifierType => [("names", .attr)]
  | .If => [("cond", .child), ("iftrue", .child), ("iffalse", .child)]
  | .InitList => [("exprs", .seq)]
  | .Label => [("name", .attr), ("stmt", .child)]
  | .NamedInitializer => [("name", .seq), ("expr", .child)]
  | .ParamList => [("params", .seq)]
  | .PtrDecl => [("quals", .attr), ("type", .child)]
  | .Return => [("expr", .child)]
  | .StaticAssert => [("cond", .child), ("message", .child)]
  | .Struct => [("name", .attr), ("decls", .seq)]
  | .StructRef => [("name", .child), ("type", .attr), ("field", .child)]
  | .Switch => [("cond", .child), ("stmt", .child)]
  | .TernaryOp => [("cond", .child), ("iftrue", .child), ("iffalse", .child)]
  | .TypeDecl => [("declname", .attr), ("quals", .attr), ("align", .attr), ("type", .child)]
  | .Typedef => [("name", .attr), ("quals", .attr), ("storage", .attr), ("type", .child)]
  | .Typename => [("name", .attr), ("quals", .attr), ("align", .attr), ("type", .child)]
  | .UnaryOp => [("op", .attr), ("expr", .child)]
  | .Union => [("name", .attr), ("decls", .seq)]
  | .While => [("cond", .child), ("stmt", .child)]
  | .Pragma => [("string", .attr)]

structure Coord where
  file : String
  line : Nat
  col : Option Nat
  deriving DecidableEq, Repr, Inhabited, BEq

def Coord.str (c : Coord) : String :=
  match c.col with
  | some k => c.file ++ ":" ++ toString c.line ++ ":" ++ toString k
  | none => c.file ++ ":" ++ toString c.line

inductive Val where
  | none
  | str (s : String)
  | list (vs : List Val)
  | node (c : Cls) (coord : Option Coord) (fs : List Val)
  deriving Repr, Inhabited

/-! structural equality, written out (the derived `BEq` of a nested inductive is opaque to proofs) -/
mutual
def Val.beq : Val → Val → Bool
  | .none, .none => true
  | .str a, .str b => a == b
  | .list a, .list b => Val.beqL a b
  | .node c co fs, .node c' co' fs' => c == c' && co == co' && Val.beqL fs fs'
  | _, _ => false
def Val.beqL : List Val → List Val → Bool
  | [], [] => true
  | a :: as, b :: bs => Val.beq a b && Val.beqL as bs
  | _, _ => false
end

instance : BEq Val := ⟨Val.beq⟩

theorem Val.beq_str (a b : String) : (Val.str a == Val.str b) = (a == b) := by
  show Val.beq _ _ = _
  simp [Val.beq]

namespace Val

def isNone : Val → Bool | .none => true | _ => false
def isNode : Val → Bool | .node .. => true | _ => false
def cls? : Val → Option Cls | .node c _ _ => some c | _ => Option.none
def isCls (v : Val) (c : Cls) : Bool := v.cls? == some c
def coord? : Val → Option (Option Coord) | .node _ co _ => some co | _ => Option.none

/-- Python truthiness of a value (`if x:`): None, "" and [] are falsy; nodes are truthy -/
def truthy : Val → Bool
  | .none => false
  | .str s => !s.isEmpty
  | .list vs => !vs.isEmpty
  | .node .. => true

def fieldIdx (c : Cls) (name : String) : Option Nat :=
  let rec go : List (String × FieldKind) → Nat → Option Nat
    | [], _ => Option.none
    | (n, _) :: t, i => if n == name then some i else go t (i + 1)
  go c.fields 0

/-- `getattr(v, name)`; `none` = AttributeError -/
def getAttr (v : Val) (name : String) : Option Val :=
  match v with
  | .node c _ fs => (fieldIdx c name).bind fun i => fs[i]?
  | _ => Option.none

/-- `setattr(v, name, x)` on a node that has the slot; `none` = AttributeError -/
def setAttr (v : Val) (name : String) (x : Val) : Option Val :=
  match v with
  | .node c co fs =>
    match fieldIdx c name with
    | some i => if i < fs.length then some (.node c co (fs.set i x)) else Option.none
    | Option.none => Option.none
  | _ => Option.none

def setCoord (v : Val) (co : Option Coord) : Val :=
  match v with
  | .node c _ fs => .node c co fs
  | v => v

def strs (l : List String) : Val := .list (l.map .str)

end Val

mutual
def Val.size : Val → Nat
  | .none => 1
  | .str _ => 1
  | .list vs => 1 + Val.sizeL vs
  | .node _ _ fs => 1 + Val.sizeL fs
def Val.sizeL : List Val → Nat
  | [] => 0
  | v :: vs => v.size + Val.sizeL vs
end

mutual
/-- length of the `.type` chain that starts at a value: the bound of the `while ... : x = x.type`
loops of the parser (unlike `size` it does not walk the whole tree, which may share subtrees) -/
def Val.tlen : Val → Nat
  | .node c _ fs => 1 + Val.tlenAt ((Val.fieldIdx c "type").getD fs.length) fs
  | _ => 1
def Val.tlenAt : Nat → List Val → Nat
  | _, [] => 0
  | 0, v :: _ => v.tlen
  | i+1, _ :: r => Val.tlenAt i r
end

theorem Val.tlenAt_get : ∀ (i : Nat) (fs : List Val) (t : Val), fs[i]? = some t → Val.tlenAt i fs = t.tlen
  | _, [], _, h => by simp at h
  | 0, v :: _, t, h => by simp at h; subst h; simp [Val.tlenAt]
  | i+1, _ :: r, t, h => by simp at h; simp [Val.tlenAt, Val.tlenAt_get i r t h]

/-- one step down the `.type` chain shortens it -/
theorem Val.tlen_getType (v t : Val) (h : v.getAttr "type" = some t) : t.tlen < v.tlen := by
  cases v with
  | node c co fs =>
    simp only [Val.getAttr] at h
    cases hi : Val.fieldIdx c "type" with
    | none => simp [hi] at h
    | some i =>
      simp only [hi, Option.bind_some] at h
      simp [Val.tlen, hi, Val.tlenAt_get i fs t h]
  | _ => simp [Val.getAttr] at h

/-! ## canonical dump (the observation compared with the real AST) -/

def quoteStr (s : String) : String :=
  "\"" ++ s.foldl (fun acc c =>
    if c == '"' then acc ++ "\\\""
    else if c == '\\' then acc ++ "\\\\"
    else if c == '\n' then acc ++ "\\n"
    else if c == ' ' then acc ++ "\\s"
    else acc.push c) "" ++ "\""

mutual
def Val.dump (withCoord : Bool) : Val → String
  | .none => "~"
  | .str s => quoteStr s
  | .list vs => "[" ++ Val.dumpL withCoord vs ++ "]"
  | .node c co fs =>
    "(" ++ c.name ++
      (if withCoord then "@" ++ (match co with | some k => k.str | Option.none => "~") else "") ++
      Val.dumpL withCoord fs ++ ")"
def Val.dumpL (withCoord : Bool) : List Val → String
  | [] => ""
  | v :: vs => " " ++ Val.dump withCoord v ++ Val.dumpL withCoord vs
end

end PycModel
