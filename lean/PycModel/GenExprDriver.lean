import PycModel.Proofs.GenExpr
import PycModel.Generated.LexTables
/-!
# Reading a real AST as `GenExpr.A` (driver side of the correspondence `G` = real generator)

`exprTokens v` walks a dumped AST in slot order, stops at every maximal expression node, converts
it to `GenExpr.A` and prints the spellings of `(G rp a).flat` for both generator configurations.
A node with a construct outside `A` (compound literal, string literal, `offsetof`, ...) gives `-`.
-/
namespace PycModel.GenExprDriver
open PycModel PycModel.GenExpr PycModel.FullExpr PycModel.TypeName

def punctKind (v : String) : String := ((Generated.fixedTokens.find? (·.2 == v)).map (·.1)).getD "?"
def kwKind (v : String) : String := ((Generated.keywords.find? (·.1 == v)).map (·.2)).getD "TYPEID"

def exprClasses : List Cls :=
  [.ID, .Constant, .UnaryOp, .ArrayRef, .StructRef, .FuncCall, .BinaryOp, .TernaryOp, .Assignment, .ExprList, .Cast]

def strsOf (v : Val) : Option (List String) :=
  match v with
  | .list l => l.mapM fun x => match x with | .str s => some s | _ => none
  | _ => none

/-- a `Typename` whose type is a chain of `PtrDecl`s over a `TypeDecl` of an `IdentifierType`,
as the generator prints it: qualifiers, type names, then the stars from the innermost pointer out -/
partial def tnOf (v : Val) : Option TN :=
  match v with
  | .node .Typename _ [_, _, _, ty] =>
    let rec chain (t : Val) (stars : List (List View.Tk)) : Option TN :=
      match t with
      | .node .PtrDecl _ [qs, inner] => do
        let q ← strsOf qs
        chain inner ((q.map fun s => (kwKind s, s)) :: stars)
      | .node .TypeDecl _ [_, qs, _, .node .IdentifierType _ [names]] => do
        let q ← strsOf qs
        let ns ← strsOf names
        some { specs := (q.map fun s => (kwKind s, s)) ++ (ns.map fun s => (kwKind s, s)), stars := stars }
      | _ => none
    -- `chain` meets the outermost pointer first and conses: the list ends up innermost first
    (chain ty []).map fun tn => { tn with stars := tn.stars }
  | _ => none

mutual
partial def ofVal (v : Val) : Option A :=
  match v with
  | .node .ID _ [.str x] => some (.id x)
  | .node .Constant _ [.str t, .str s] =>
    (constKinds.find? fun k => constType k s == some t).map fun k => A.const k s t
  | .node .UnaryOp _ [.str op, e] =>
    if op == "sizeof" then
      match e with
      | .node .Typename .. => (tnOf e).map A.szofT
      | _ => (ofVal e).map A.szof
    else if op == "_Alignof" then (tnOf e).map A.alignT
    else if op == "p++" then (ofVal e).map (A.post "PLUSPLUS" "++")
    else if op == "p--" then (ofVal e).map (A.post "MINUSMINUS" "--")
    else (ofVal e).map (A.pre (punctKind op) op)
  | .node .ArrayRef _ [a, i] => do some (.index (← ofVal a) (← ofVal i))
  | .node .StructRef _ [a, .str ty, .node .ID _ [.str f]] => do some (.member (punctKind ty) ty (← ofVal a) f)
  | .node .FuncCall _ [f, .none] => do some (.call (← ofVal f) .nil)
  | .node .FuncCall _ [f, .node .ExprList _ [.list items]] => do some (.call (← ofVal f) (← ofList items))
  | .node .BinaryOp _ [.str op, l, r] => do some (.bin (punctKind op) op (← ofVal l) (← ofVal r))
  | .node .TernaryOp _ [c, t, f] => do some (.cond (← ofVal c) (← ofVal t) (← ofVal f))
  | .node .Assignment _ [.str op, l, r] => do some (.assign (punctKind op) op (← ofVal l) (← ofVal r))
  | .node .ExprList _ [.list (a :: b :: rest)] => do some (.comma (← ofVal a) (← ofList (b :: rest)))
  | .node .Cast _ [ty, e] => do some (.cast (← tnOf ty) (← ofVal e))
  | _ => none
partial def ofList (l : List Val) : Option AL :=
  match l with
  | [] => some .nil
  | a :: r => do some (.cons (← ofVal a) (← ofList r))
end

def tokensOf (rp : Bool) (a : A) : String := " ".intercalate ((G rp a).flat.map (·.2))

/-- one entry per maximal expression node, in slot order -/
partial def exprTokens (v : Val) : List String :=
  match v with
  | .node c _ fs =>
    if exprClasses.contains c then
      match ofVal v with
      | some a => [tokensOf false a ++ "|" ++ tokensOf true a]
      | none => ["-"]
    else fs.flatMap exprTokens
  | .list vs => vs.flatMap exprTokens
  | _ => []

end PycModel.GenExprDriver
