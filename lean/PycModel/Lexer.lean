import PycModel.Regex
/-!
# Model of `pycparser/c_lexer.py` (`CLexer.token`)

The scanner is parameterised by a `LexCfg` holding everything that is *data* in the module
(rule table, fixed-token buckets, keyword map, the four auxiliary patterns).  The concrete
configuration is regenerated from `/repo` on every run (`Generated/LexTables.lean`).

The state carries the unread suffix `rest` of the text and never the text before it, so every
function here depends only on what is still to be read (no look-behind) — by its type.
-/
namespace PycModel

inductive Action | token | ident | error
  deriving Repr, DecidableEq, Inhabited

structure Rule where
  name : String
  re : Re
  action : Action
  msg : Option String
  deriving Repr, Inhabited

structure Fixed where
  name : String
  lit : List Char
  deriving Repr, Inhabited

structure LexCfg where
  uni : UniCfg
  rules : List Rule
  /-- `_fixed_tokens_by_first`: one bucket per first character, entries in the bucket's order -/
  buckets : List (Char × List Fixed)
  keywords : List (String × String)
  linePat : Re
  pragmaPat : Re
  decConst : Re
  strLit : Re

structure Token where
  kind : String
  val : String
  line : Nat
  col : Nat
  deriving Repr, DecidableEq, Inhabited, BEq

/-- what one call of the scanner's main loop can emit -/
inductive Ev where
  | tok (t : Token) (off : Nat) (file : String)          -- `file` = lexer's filename when returned
  | err (msg : String) (line col : Nat) (off : Nat) (file : String)  -- error callback invocation
  | eof (file : String)
  | dir (line : Nat) (next : Nat)                         -- ghost: a `#line` directive was obeyed; text offset `next` is on line `line`
  | stuck                                                 -- a zero-length token: the Python loop would spin
  deriving Repr, Inhabited, BEq

structure LexState where
  rest : List Char
  pos : Nat
  lineno : Nat
  lineStart : Nat
  file : String
  deriving Repr, Inhabited

def LexState.init (text : List Char) (file : String) : LexState :=
  { rest := text, pos := 0, lineno := 1, lineStart := 0, file := file }

def LexState.col (s : LexState) (pos : Nat) : Nat := pos - s.lineStart + 1

/-- `_regex_master.match`: first rule (in table order) that matches, with Python's first match length -/
def matchMaster (cfg : LexCfg) (s : List Char) : Option (Rule × Nat) :=
  cfg.rules.findSome? fun r => (reMatch cfg.uni r.re s).map fun n => (r, n)

def startsWith : List Char → List Char → Bool
  | _, [] => true
  | [], _ :: _ => false
  | c :: s, d :: p => c == d && startsWith s p

/-- first entry of the bucket for `s.head` that is a prefix of `s` -/
def matchFixed (cfg : LexCfg) (s : List Char) : Option Fixed :=
  match s with
  | [] => none
  | c :: _ =>
    match cfg.buckets.find? (·.1 == c) with
    | none => none
    | some (_, b) => b.find? fun e => startsWith s e.lit

inductive Best where
  | none
  | regex (r : Rule) (len : Nat)
  | fixed (f : Fixed)
  deriving Repr, Inhabited

/-- longest of regex match and fixed token; the regex wins ties (`length > best[0]`) -/
def matchBest (cfg : LexCfg) (s : List Char) : Best :=
  match matchMaster cfg s, matchFixed cfg s with
  | none, none => .none
  | some (r, n), none => .regex r n
  | none, some f => .fixed f
  | some (r, n), some f => if f.lit.length > n then .fixed f else .regex r n

/-- Python `repr` of a one-character string (ASCII exact; non-ASCII printed raw). -/
def pyReprChar (c : Char) : String :=
  let hex2 (n : Nat) : String :=
    let d (k : Nat) : Char := if k < 10 then Char.ofNat (48 + k) else Char.ofNat (87 + k)
    String.ofList [d (n / 16), d (n % 16)]
  if c == '\'' then "\"'\""
  else if c == '\\' then "'\\\\'"
  else if c == '\n' then "'\\n'"
  else if c == '\r' then "'\\r'"
  else if c == '\t' then "'\\t'"
  else if c.val < 32 || c.val == 127 then "'\\x" ++ hex2 c.toNat ++ "'"
  else "'" ++ String.ofList [c] ++ "'"

def lookupKw (cfg : LexCfg) (v : String) : String :=
  match cfg.keywords.find? (·.1 == v) with
  | some (_, k) => k
  | none => "ID"

/-- result of `_match_token`: events emitted (a token or an error report) and the number of
    characters consumed. -/
def matchToken (cfg : LexCfg) (isType : String → Bool) (st : LexState) : List Ev × Nat :=
  match st.rest with
  | [] => ([], 0)
  | c :: _ =>
  match matchBest cfg st.rest with
  | .none =>
    ([.err ("Illegal character " ++ pyReprChar c) st.lineno (st.col st.pos) st.pos st.file], 1)
  | .fixed f =>
    ([.tok ⟨f.name, String.ofList f.lit, st.lineno, st.col st.pos⟩ st.pos st.file], f.lit.length)
  | .regex r n =>
    let value := String.ofList (st.rest.take n)
    match r.action with
    | .token => ([.tok ⟨r.name, value, st.lineno, st.col st.pos⟩ st.pos st.file], n)
    | .error =>
      let msg := if r.name == "BAD_CHAR_CONST" then "Invalid char constant " ++ value
                 else r.msg.getD ""
      ([.err msg st.lineno (st.col st.pos) st.pos st.file], max 1 n)
    | .ident =>
      let k := lookupKw cfg value
      let k := if k == "ID" && isType value then "TYPEID" else k
      ([.tok ⟨k, value, st.lineno, st.col st.pos⟩ st.pos st.file], n)

def skipWs : List Char → Nat
  | c :: s => if c == ' ' || c == '\t' then skipWs s + 1 else 0
  | [] => 0

def lineLen : List Char → Nat
  | [] => 0
  | c :: s => if c == '\n' then 0 else lineLen s + 1

/-- length of the list without its trailing blanks and tabs -/
def trimLen : List Char → Nat
  | [] => 0
  | c :: s => if trimLen s == 0 && (c == ' ' || c == '\t') then 0 else trimLen s + 1

def stripQuotesL : List Char → List Char
  | '"' :: s => stripQuotesL s
  | s => s

def stripQuotes (s : List Char) : List Char :=
  (stripQuotesL (stripQuotesL s).reverse).reverse

def allDigits (s : List Char) : Bool := s.all Char.isDigit

def digitsToNat (s : List Char) : Nat := s.foldl (fun a c => a * 10 + (c.toNat - 48)) 0

/-- CPython's default `sys.get_int_max_str_digits()`: `int(s)` raises `ValueError` for a decimal
string with more digits (the `try/except ValueError` around `int(pp_line)` turns that into
"invalid #line directive") -/
def pyIntMaxStrDigits : Nat := 4300

/-- `int(pp_line)` succeeds -/
def pyIntOk (s : List Char) : Bool := allDigits s && decide (s.length ≤ pyIntMaxStrDigits)

/-- outcome of `_handle_ppline`, computed on the rest of the directive line (after the `#`) -/
inductive PpLine where
  | ok (lineno : Nat) (file : Option String)
  | missing                              -- "line number missing in #line": reported, line consumed
  | failAt (msg : String) (off : Nat)    -- reported at `off`, line consumed
  | badInt                               -- `int()` failed: reported, position NOT advanced
  deriving Repr, Inhabited

/-- numeric flags after the file name -/
def ppFlags (cfg : LexCfg) : Nat → List Char → Nat → Option Nat
  | 0, _, _ => some 0
  | fuel+1, line, off =>
    let w := skipWs line
    let line := line.drop w
    let off := off + w
    if line.isEmpty then none else
    match reMatch cfg.uni cfg.decConst line with
    | none => some off
    | some n => if n == 0 then some off else ppFlags cfg fuel (line.drop n) (off + n)

def handlePpLine (cfg : LexCfg) (line : List Char) : PpLine :=
  let w0 := skipWs line
  let l1 := line.drop w0
  let (l2, p2) := if startsWith l1 "line".toList then (l1.drop 4, w0 + 4) else (l1, w0)
  let w1 := skipWs l2
  let l3 := l2.drop w1
  let p3 := p2 + w1
  match l3 with
  | [] => .missing
  | c :: _ =>
  if c == '"' then .failAt "filename before line number in #line" p3 else
  match reMatch cfg.uni cfg.decConst l3 with
  | none => .failAt "invalid #line directive" p3
  | some n =>
    let ppLine := l3.take n
    let l4 := l3.drop n
    let w2 := skipWs l4
    let l5 := l4.drop w2
    let p5 := p3 + n + w2
    match l5 with
    | [] => if pyIntOk ppLine then .ok (digitsToNat ppLine) none else .badInt
    | d :: _ =>
    if d != '"' then .failAt "invalid #line directive" p5 else
    match reMatch cfg.uni cfg.strLit l5 with
    | none => .failAt "invalid #line directive" p5
    | some m =>
      let fname := String.ofList (stripQuotes (l5.take m))
      match ppFlags cfg (l5.length + 1) (l5.drop m) (p5 + m) with
      | some off => .failAt "invalid #line directive" off
      | none => if pyIntOk ppLine then .ok (digitsToNat ppLine) (some fname) else .badInt

/-- `#line` / linemarker branch: `self._pos += 1; self._handle_ppline()`; `tl` is the text after `#` -/
def stepLineDirective (cfg : LexCfg) (st : LexState) (tl : List Char) : List Ev × LexState :=
  let ll := lineLen tl
  let line := tl.take ll
  let p := st.pos + 1
  let after : LexState :=
    { st with rest := tl.drop (ll + 1), pos := p + ll + 1, lineStart := p + ll + 1 }
  match handlePpLine cfg line with
  | .ok n f => ([.dir n (p + ll + 1)], { after with lineno := n, file := f.getD st.file })
  | .missing => ([.err "line number missing in #line" st.lineno (st.col (p + ll)) (p + ll) st.file], after)
  | .failAt msg off => ([.err msg st.lineno (st.col (p + off)) (p + off) st.file], after)
  | .badInt =>
    ([.err "invalid #line directive" st.lineno (st.col (p + ll)) (p + ll) st.file],
     { st with rest := tl, pos := p })

/-- `#pragma` branch: `self._pos += 1; self._handle_pppragma()` -/
def stepPragma (st : LexState) (tl : List Char) : List Ev × LexState :=
  let w := skipWs tl
  let r1 := tl.drop w
  let p1 := st.pos + 1 + w
  if r1.isEmpty then ([], { st with rest := [], pos := p1 })
  else if !startsWith r1 "pragma".toList then
    ([.err "invalid #pragma directive" st.lineno (st.col p1) p1 st.file],
     { st with rest := r1.drop 1, pos := p1 + 1 })
  else
    let r2 := r1.drop 6
    let w2 := skipWs r2
    let r3 := r2.drop w2
    let start := p1 + 6 + w2
    let ll := lineLen r3
    let t1 : Ev := .tok ⟨"PPPRAGMA", "pragma", st.lineno, st.col p1⟩ p1 st.file
    -- blanks at the end of the line are not part of the pragma's text
    let tl' := trimLen (r3.take ll)
    let evs := if tl' > 0 then
        [t1, .tok ⟨"PPPRAGMASTR", String.ofList (r3.take tl'), st.lineno, st.col start⟩ start st.file]
      else [t1]
    match r3.drop ll with
    | [] => (evs, { st with rest := [], pos := start + ll })
    | _ :: r5 =>   -- the newline
      (evs, { st with rest := r5, pos := start + ll + 1, lineno := st.lineno + 1,
                      lineStart := start + ll + 1 })

/-- one iteration of the `while self._pos < n` loop of `token()`.
    Returns the events emitted and the new state. -/
def lexStep (cfg : LexCfg) (isType : String → Bool) (st : LexState) : List Ev × LexState :=
  match st.rest with
  | [] => ([], st)
  | c :: tl =>
  if c == ' ' || c == '\t' then ([], { st with rest := tl, pos := st.pos + 1 })
  else if c == '\n' then
    ([], { st with rest := tl, pos := st.pos + 1, lineno := st.lineno + 1, lineStart := st.pos + 1 })
  else if c == '#' then
    if (reMatch cfg.uni cfg.linePat tl).isSome then stepLineDirective cfg st tl
    else if (reMatch cfg.uni cfg.pragmaPat tl).isSome then stepPragma st tl
    else
      ([.tok ⟨"PPHASH", "#", st.lineno, st.col st.pos⟩ st.pos st.file],
       { st with rest := tl, pos := st.pos + 1 })
  else
    let r := matchToken cfg isType st
    (r.1, { st with rest := st.rest.drop r.2, pos := st.pos + r.2 })

/-- The whole event stream of a standalone lexer that keeps calling `token()` until `None`,
    with an error callback that records and returns.  `fuel` is only a syntactic termination
    device: `scan` passes enough of it (see `Proofs/LexerTotal`). -/
def scanLoop (cfg : LexCfg) (isType : String → Bool) : Nat → LexState → List Ev
  | 0, _ => [.stuck]
  | fuel+1, st =>
    if st.rest.isEmpty then [.eof st.file] else
    let (evs, st') := lexStep cfg isType st
    if st'.rest.length < st.rest.length then evs ++ scanLoop cfg isType fuel st'
    else evs ++ [.stuck]

def scan (cfg : LexCfg) (isType : String → Bool) (text : List Char) (file : String) : List Ev :=
  scanLoop cfg isType (text.length + 1) (LexState.init text file)

end PycModel
