import PycModel.Ast
/-!
# Generic node reflection: `children()`, iteration, `NodeVisitor`, `show()`

Driven only by the class table `Cls.fields` (= `_c_ast.cfg`): the code templates of `_ast_gen.py`
as one generic function each.
-/
namespace PycModel

/-- elements of a sequence-valued field (`self.x or []`) -/
def seqElems : Val → List Val
  | .list l => l
  | _ => []

/-- `children()`: single children in table order (absent ones skipped), then sequences with
indexed names -/
def childrenOf (c : Cls) (fs : List Val) : List (String × Val) :=
  let pairs := c.fields.zip fs
  let singles := pairs.filterMap fun (f, v) =>
    if f.2 == .child && !v.isNone then some (f.1, v) else none
  let seqs := pairs.flatMap fun (f, v) =>
    if f.2 == .seq then (seqElems v).zipIdx.map fun (e, i) => (f.1 ++ "[" ++ toString i ++ "]", e) else []
  singles ++ seqs

def Val.children : Val → List (String × Val)
  | .node c _ fs => childrenOf c fs
  | _ => []

/-- `__iter__` -/
def Val.iter (v : Val) : List Val := v.children.map (·.2)

/-- `attr_names` -/
def Cls.attrNames (c : Cls) : List String :=
  c.fields.filterMap fun f => if f.2 == .attr then some f.1 else none

/-- number of nodes reachable through `children()` (fuel = an upper bound on the depth) -/
def reach : Nat → Val → Nat
  | 0, _ => 0
  | fuel+1, v => 1 + ((v.children.map fun c => reach fuel c.2).sum)

/-- `NodeVisitor.generic_visit` from the root: the classes visited, in order -/
def visitTrace : Nat → Val → List Cls
  | 0, _ => []
  | fuel+1, v =>
    match v with
    | .node c _ _ => c :: (v.children.flatMap fun ch => visitTrace fuel ch.2)
    | _ => (v.children.flatMap fun ch => visitTrace fuel ch.2)

/-- a visitor that defines `visit_X` for the classes in `xs` (and does not recurse there):
(nodes handed to a `visit_X`, nodes handled by `generic_visit`) in visiting order -/
def visitWith (xs : List Cls) : Nat → Val → List Val × List Val
  | 0, _ => ([], [])
  | fuel+1, v =>
    match v with
    | .node c _ _ =>
      if xs.contains c then ([v], [])
      else
        let rs := v.children.map fun ch => visitWith xs fuel ch.2
        (rs.flatMap (·.1), v :: rs.flatMap (·.2))
    | _ => ([], [])

/-- `show()`: one line per node (only the class names are modelled) -/
def showLines : Nat → Nat → Val → List String
  | 0, _, _ => []
  | fuel+1, off, v =>
    match v with
    | .node c _ _ =>
      (String.ofList (List.replicate off ' ') ++ c.name ++ ": ") ::
        (v.children.flatMap fun ch => showLines fuel (off + 2) ch.2)
    | _ => []

/-- every value reachable through children is a node (true of everything the parser builds) -/
def allNodes : Nat → Val → Bool
  | 0, _ => true
  | fuel+1, v => v.isNode && v.children.all fun ch => allNodes fuel ch.2

end PycModel
