import PycModel.Ast
/-!
# Generic node reflection: `children()`, iteration, `NodeVisitor`, `show()`

Driven only by the class table `Cls.fields` (= `_c_ast.cfg`): the code templates of `_ast_gen.py`
as one generic function each.
-/
namespace PycModel

/-- elements of a sequence-valued field (`self.x or []`) -/
def seqElems : Val → List Val
  | .list l => l
  | _ => []

/-- `children()`: single children in table order (absent ones skipped), then sequences with
indexed names -/
def childrenOf (c : Cls) (fs : List Val) : List (String × Val) :=
  let pairs := c.fields.zip fs
  let singles := pairs.filterMap fun (f, v) =>
    if f.2 == .child && !v.isNone then some (f.1, v) else none
  let seqs := pairs.flatMap fun (f, v) =>
    if f.2 == .seq then (seqElems v).zipIdx.map fun (e, i) => (f.1 ++ "[" ++ toString i ++ "]", e) else []
  singles ++ seqs

def Val.children : Val → List (String × Val)
  | .node c _ fs => childrenOf c fs
  | _ => []

/-- `__iter__` -/
def Val.iter (v : Val) : List Val := v.children.map (·.2)

/-- `attr_names` -/
def Cls.attrNames (c : Cls) : List String :=
  c.fields.filterMap fun f => if f.2 == .attr then some f.1 else none

/-- number of nodes reachable through `children()` (fuel = an upper bound on the depth) -/
def reach : Nat → Val → Nat
  | 0, _ => 0
  | fuel+1, v => 1 + ((v.children.map fun c => reach fuel c.2).sum)

/-- `NodeVisitor.generic_visit` from the root: the classes visited, in order -/
def visitTrace : Nat → Val → List Cls
  | 0, _ => []
  | fuel+1, v =>
    match v with
    | .node c _ _ => c :: (v.children.flatMap fun ch => visitTrace fuel ch.2)
    | _ => (v.children.flatMap fun ch => visitTrace fuel ch.2)

/-- a visitor that defines `visit_X` for the classes in `xs` (and does not recurse there):
(nodes handed to a `visit_X`, nodes handled by `generic_visit`) in visiting order -/
def visitWith (xs : List Cls) : Nat → Val → List Val × List Val
  | 0, _ => ([], [])
  | fuel+1, v =>
    match v with
    | .node c _ _ =>
      if xs.contains c then ([v], [])
      else
        let rs := v.children.map fun ch => visitWith xs fuel ch.2
        (rs.flatMap (·.1), v :: rs.flatMap (·.2))
    | _ => ([], [])

/-- `show()`: one line per node (only the class names are modelled) -/
def showLines : Nat → Nat → Val → List String
  | 0, _, _ => []
  | fuel+1, off, v =>
    match v with
    | .node c _ _ =>
      (String.ofList (List.replicate off ' ') ++ c.name ++ ": ") ::
        (v.children.flatMap fun ch => showLines fuel (off + 2) ch.2)
    | _ => []

/-- every value reachable through children is a node (true of everything the parser builds) -/
def allNodes : Nat → Val → Bool
  | 0, _ => true
  | fuel+1, v => v.isNode && v.children.all fun ch => allNodes fuel ch.2

end PycModel

namespace PycModel

/-! ## `Node.__repr__` / `_repr` (c_ast.py:21-63) -/

def hex2 (n : Nat) : String :=
  let d (k : Nat) : Char := if k < 10 then Char.ofNat (48 + k) else Char.ofNat (87 + k)
  String.ofList [d (n / 16), d (n % 16)]

/-- Python `repr` of an ASCII `str` (quote choice and escapes as CPython's `unicode_repr`);
non-ASCII characters are passed through (CPython does so for printable ones) -/
def pyReprStr (s : String) : String :=
  let hasS := s.any (· == '\'')
  let hasD := s.any (· == '"')
  let q : Char := if hasS && !hasD then '"' else '\''
  let body := s.foldl (fun acc c =>
    if c == q || c == '\\' then (acc.push '\\').push c
    else if c == '\n' then acc ++ "\\n"
    else if c == '\r' then acc ++ "\\r"
    else if c == '\t' then acc ++ "\\t"
    else if c.val < 32 || c.val == 127 then acc ++ "\\x" ++ hex2 c.toNat
    else acc.push c) ""
  (String.singleton q) ++ body ++ (String.singleton q)

/-- `s.replace("\n", "\n" + pad)` -/
def indentNl (pad : String) (s : String) : String :=
  s.foldl (fun acc c => if c == '\n' then (acc.push '\n') ++ pad else acc.push c) ""

def spacesStr (n : Nat) : String := String.ofList (List.replicate n ' ')

mutual
/-- `_repr(obj)` -/
def reprVal : Val → String
  | .none => "None"
  | .str s => pyReprStr s
  | .list vs => "[" ++ ",\n ".intercalate (reprListElems vs) ++ "\n]"
  | .node c _ fs =>
    let cn := c.name
    let names := c.fields.map (·.1)
    cn ++ "(" ++ reprFields cn names fs true ++ (if names.isEmpty then "" else "\n " ++ spacesStr cn.length) ++ ")"
def reprListElems : List Val → List String
  | [] => []
  | v :: vs => indentNl " " (reprVal v) :: reprListElems vs
/-- the `for name in self.__slots__[:-2]` loop -/
def reprFields (cn : String) : List String → List Val → Bool → String
  | n :: ns, v :: vs, first =>
    (if first then "" else ",\n " ++ spacesStr cn.length) ++
      n ++ "=" ++ indentNl ("  " ++ spacesStr (n.length + cn.length)) (reprVal v) ++
      reprFields cn ns vs false
  | _, _, _ => ""
end

end PycModel
