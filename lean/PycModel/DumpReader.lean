import PycModel.Ast
/-! Reader for the canonical AST dump (`Val.dump false`), used to hand the *real* AST to the
generator / reflection models so that their correspondence does not depend on the parser model. -/
namespace PycModel

def clsOfName (n : String) : Option Cls := Cls.all.find? (·.name == n)

def readQuoted : List Char → List Char → Option (String × List Char)
  | '"' :: r, acc => some (String.ofList acc.reverse, r)
  | '\\' :: '"' :: r, acc => readQuoted r ('"' :: acc)
  | '\\' :: '\\' :: r, acc => readQuoted r ('\\' :: acc)
  | '\\' :: 'n' :: r, acc => readQuoted r ('\n' :: acc)
  | '\\' :: 's' :: r, acc => readQuoted r (' ' :: acc)
  | c :: r, acc => readQuoted r (c :: acc)
  | [], _ => none

mutual
def readVal : Nat → List Char → Option (Val × List Char)
  | 0, _ => none
  | fuel+1, s =>
    match s with
    | '~' :: r => some (.none, r)
    | '"' :: r => (readQuoted r []).map fun (str, rest) => (.str str, rest)
    | '[' :: r => (readSeq fuel r ']').map fun (vs, rest) => (.list vs, rest)
    | '(' :: r =>
      let name := r.takeWhile fun c => c != ' ' && c != ')' && c != '@'
      let rest := r.drop name.length
      match clsOfName (String.ofList name) with
      | none => none
      | some c => (readSeq fuel rest ')').map fun (vs, rest') => (.node c none vs, rest')
    | _ => none
/-- `( " " val )* close` -/
def readSeq : Nat → List Char → Char → Option (List Val × List Char)
  | 0, _, _ => none
  | fuel+1, s, close =>
    match s with
    | c :: r =>
      if c == close then some ([], r)
      else if c == ' ' then
        match readVal fuel r with
        | some (v, rest) => (readSeq fuel rest close).map fun (vs, rest') => (v :: vs, rest')
        | none => none
      else none
    | [] => none
end

def readDump (s : String) : Option Val :=
  match readVal (s.length + 2) s.toList with
  | some (v, []) => some v
  | _ => none

end PycModel
