import PycModel.Proto
import PycModel.Lexer
import PycModel.Parser.Stmt
import PycModel.Generator
import PycModel.Reflect
import PycModel.DumpReader
import PycModel.Cpp
import PycModel.Generated.FakeHeaders
import PycModel.Spec.Expr
import PycModel.Spec.Decl
import PycModel.Spec.Stmt
import PycModel.Spec.Lexical
import PycModel.Spec.Scoping
import PycModel.Spec.TuGen
import PycModel.Generated.LexTables
import PycModel.GenExprDriver
/-! Model driver: one request per line on stdin, one response per line on stdout. -/
open PycModel PycModel.Proto

def evStr : Ev → String
  | .tok t _ file => rec ["T", t.kind, t.val, toString t.line, toString t.col, file]
  | .err msg line col _ _ => rec ["E", msg, toString line, toString col]
  | .eof file => rec ["EOF", file]
  | .stuck => "STUCK"
  | .dir _ _ => ""

def crashName : Crash → String
  | .assertion => "assertion" | .attribute => "attribute" | .value => "value"
  | .index => "index" | .type => "type" | .key => "key"

def genStr (rp : Bool) (v : Val) : String :=
  match generate rp v with
  | .ok s => "T:" ++ escape s
  | .error (.attribute _) => "X:attribute"
  | .error (.type _) => "X:type"
  | .error (.index _) => "X:index"
  | .error (.assertion _) => "X:assertion"
  | .error (.key _) => "X:key"
  | .error .fuel => "X:fuel"

def handle (line : String) : String :=
  match (line.splitOn "\t").map unescape with
  | ["scan", types, file, text] =>
    let ts := if types.isEmpty then [] else types.splitOn ","
    let evs := scan Generated.lexCfg (fun n => ts.contains n) text.toList file
    "\t".intercalate ((evs.filter fun e => match e with | .dir _ _ => false | _ => true).map evStr)
  | ["parse", file, text] =>
    match (parseText Generated.lexCfg 100000 text file).1 with
    | .ast v => "OK\t" ++ escape (v.dump false) ++ "\t" ++ escape (v.dump true)
    | .parseError loc msg => "PE\t" ++ escape (loc.str ++ ": " ++ msg)
    | .crash k site => "CRASH\t" ++ crashName k ++ "\t" ++ escape site
    | .fuel => "FUEL"
  | ["gen", file, text] =>
    match (parseText Generated.lexCfg 100000 text file).1 with
    | .ast v => "OK\t" ++ genStr false v ++ "\t" ++ genStr true v
    | .parseError loc msg => "PE\t" ++ escape (loc.str ++ ": " ++ msg)
    | .crash k _ => "CRASH\t" ++ crashName k
    | .fuel => "FUEL"
  | ["c02", "enum", n, lo, hi] =>
    -- all trees with n operator nodes, indices [lo, hi), three parenthesisations each
    let all := (Spec.enumExpr n.toNat!).toArray
    let hi' := min hi.toNat! all.size
    let idxs := (List.range (hi' - lo.toNat!)).map (· + lo.toNat!)
    let cases := idxs.flatMap fun i =>
      let e := (Spec.relabel all[i]! 0).1
      let k := e.nodes
      [Spec.mkCase e [] i, Spec.mkCase e (Spec.randDeco k (Spec.lcg (i + 17))) (i + 3),
       Spec.mkCase e (List.replicate k 1) (i + 5)]
    toString all.size ++ "\t" ++ "\t".intercalate (cases.map fun (t, d) => rec [t, d])
  | ["c02", "rand", seed, count, depth] =>
    let rec go : Nat → Nat → List (String × String) → List (String × String)
      | 0, _, acc => acc.reverse
      | n+1, s, acc =>
        let (e, s1) := Spec.randExpr depth.toNat! s
        let d := if (s1 / 65536) % 3 == 0 then [] else Spec.randDeco e.nodes s1
        go n (Spec.lcg s1) (Spec.mkCase e d ((s1 / 7) % 10) :: acc)
    let cases := go count.toNat! (Spec.lcg (seed.toNat! + 1)) []
    "\t".intercalate (cases.map fun (t, d) => rec [t, d])
  | ["c03", "enum", len, lo, hi] =>
    -- every derivation sequence of the given length over the small alphabet x every context
    let all := (Spec.seqs Spec.derivAlphabetSmall len.toNat!).toArray
    let hi' := min hi.toNat! all.size
    let idxs := (List.range (hi' - lo.toNat!)).map (· + lo.toNat!)
    let cases := idxs.flatMap fun i =>
      let ds := all[i]!
      let b := Spec.bases[i % Spec.bases.length]!
      Spec.DCtx.all.filterMap fun ctx =>
        if ctx.abstract && (!(ds.all Spec.Deriv.plain) || !b.abstractOK) then none
        else
          let nm := if ctx.abstract then none else some "x"
          some (Spec.declCase b (Spec.ofDerivs nm ds) ctx)
    toString all.size ++ "\t" ++ "\t".intercalate (cases.map fun (t, d) => rec [t, d])
  | ["c03", "specs", seed, count] =>
    let rec goS : Nat → Nat → List (String × String) → List (String × String)
      | 0, _, acc => acc.reverse
      | n+1, s, acc =>
        let r := Spec.randSpecs s
        let hasFn := r.1.any fun x => match x with | .func _ => true | _ => false
        let hasTy := r.1.any fun x => match x with | .ty _ => true | _ => false
        let c := if hasFn && hasTy && (r.2 / 65536) % 2 == 0 then Spec.specCaseTypedefFn r.1 else Spec.specCase r.1
        goS n r.2 (c :: acc)
    let cases := goS count.toNat! (Spec.lcg (seed.toNat! + 23)) []
    "\t".intercalate (cases.map fun (t, d) => rec [t, d])
  | ["c03", "rand", seed, count, maxlen] =>
    let rec go3 : Nat → Nat → List (String × String) → List (String × String)
      | 0, _, acc => acc.reverse
      | n+1, s, acc =>
        let len := (s / 65536) % (maxlen.toNat! + 1)
        let rec mk : Nat → Nat → List Spec.Deriv → List Spec.Deriv × Nat
          | 0, s, ds => (ds, s)
          | k+1, s, ds => mk k (Spec.lcg s) (Spec.pick Spec.derivAlphabet s :: ds)
        let (ds, s1) := mk len (Spec.lcg s) []
        let ctx := Spec.pick Spec.DCtx.all s1
        let b := Spec.pick Spec.bases (Spec.lcg s1)
        let s2 := Spec.lcg (Spec.lcg s1)
        if ctx.abstract && (!(ds.all Spec.Deriv.plain) || !b.abstractOK) then go3 n s2 acc
        else
          let nm := if ctx.abstract then none else some (Spec.pick ["x", "y1", "zz"] s2)
          go3 n (Spec.lcg s2) (Spec.declCase b (Spec.ofDerivs nm ds) ctx :: acc)
    let cases := go3 count.toNat! (Spec.lcg (seed.toNat! + 7)) []
    "\t".intercalate (cases.map fun (t, d) => rec [t, d])
  | ["c05", "enum", na, nw, depth, lo, hi] =>
    let all := (Spec.enumStmt na.toNat! nw.toNat! depth.toNat!).toArray
    let hi' := min hi.toNat! all.size
    let idxs := (List.range (hi' - lo.toNat!)).map (· + lo.toNat!)
    let cases := idxs.map fun i => Spec.stmtCase [all[i]!]
    toString all.size ++ "\t" ++ "\t".intercalate (cases.map fun (t, d) => rec [t, d])
  | ["c05", "rand", seed, count, depth] =>
    let rec go5 : Nat → Nat → List (String × String) → List (String × String)
      | 0, _, acc => acc.reverse
      | n+1, s, acc =>
        let r1 := Spec.randStmt depth.toNat! true s
        let r2 := Spec.randStmt depth.toNat! true r1.2
        go5 n (Spec.lcg r2.2) (Spec.stmtCase [r1.1, r2.1] :: acc)
    let cases := go5 count.toNat! (Spec.lcg (seed.toNat! + 11)) []
    "\t".intercalate (cases.map fun (t, d) => rec [t, d])
  | ["reflectast", dump, xs] =>
    match readDump dump with
    | some v =>
      let fuel := v.size + 1
      let over := Cls.all.filter fun c => (xs.splitOn ",").contains c.name
      let w := visitWith over fuel v
      "OK\t" ++ toString (reach fuel v) ++ "\t" ++ " ".intercalate ((visitTrace fuel v).map Cls.name) ++ "\t" ++
        toString (showLines fuel 0 v).length ++ "\t" ++ toString w.1.length ++ "\t" ++ toString w.2.length
    | none => "BADDUMP"
  | ["reprast", dump] =>
    match readDump dump with
    | some v => "OK\t" ++ escape (reprVal v)
    | none => "BADDUMP"
  | ["cost", file, text] =>
    -- `parseCore` only: resolving the coordinates (`finish`) walks the AST as a tree, while the
    -- declarators of one declaration share their specifier nodes
    match parseCore 100000 (strip (scan Generated.lexCfg (fun _ => false) text.toList file)) with
    | (.ast _, some st) => "OK\t" ++ toString st.ticks ++ "\t" ++ toString st.lexCalls ++ "\t" ++ toString st.buf.size
    | (.ast _, none) => "OK?"
    | _ => "NOPARSE"
  | ["cpp", hs] =>
    let fs : Cpp.FS := Generated.fakeFS.map fun d => ⟨d.name, d.guard, d.includes, d.hasBody⟩
    " ".intercalate (Cpp.pp fs (if hs.isEmpty then [] else hs.splitOn ","))
  | ["c10", text] =>
    match Spec.Lex.classify text.toList with
    | some k => k.tokenClass
    | none => "-"
  | ["c04", "enum", len, lo, hi] =>
    -- all well-formed histories of `len` events over 2 names (nesting depth <= 2), a probe of both
    -- names after every event, x 4 file-scope prefixes
    let names := ["T", "U"]
    let alpha : List Spec.ScEv := [.openBlock, .closeBlock] ++ names.flatMap fun n =>
      [.typedefName n, .object n, .func n, .tag n, .member n, .protoParam n, .objectS n (if n == "T" then 0 else 3)]
    let rec seqs : Nat → List (List Spec.ScEv)
      | 0 => [[]]
      | k+1 => (seqs k).flatMap fun s => alpha.map fun e => s ++ [e]
    let prefixes : List (List Spec.ScEv) := [[], [.typedefName "T"], [.typedefName "T", .typedefName "U"], [.object "T", .typedefName "U"]]
    let all := ((seqs len.toNat!).flatMap fun s => prefixes.map fun p => (p, s)).toArray
    let hi' := min hi.toNat! all.size
    let idxs := (List.range (hi' - lo.toNat!)).map (· + lo.toNat!)
    let depthOK (s : List Spec.ScEv) : Bool :=
      (s.foldl (fun (acc : Nat × Bool) e => match e with
        | .openBlock => (acc.1 + 1, acc.2 && acc.1 + 1 ≤ 2)
        | .closeBlock => (acc.1 - 1, acc.2)
        | _ => acc) (0, true)).2
    let cases := idxs.filterMap fun i =>
      let (p, s) := all[i]!
      -- close whatever is still open at the end
      let opens := s.foldl (fun (d : Int) e => match e with | .openBlock => d + 1 | .closeBlock => d - 1 | _ => d) 0
      let s := s ++ List.replicate opens.toNat .closeBlock
      -- parameters of the enclosing function definition (rotating): named ones hide, unnamed ones do not
      let plists : List (List (Option String)) := [[], [some "T"], [none, some "T"], [some "T", none], [some "U", some "T"],
        [none, none, some "U"], [some "U"]]
      let params := plists[(i / 4) % plists.length]!
      let pobjs : List Spec.ScEv := params.filterMap fun q => q.map Spec.ScEv.object
      if !(Spec.wellFormed s (Spec.after (p ++ [.openBlock] ++ pobjs) [[]]) 0) || !depthOK s then none else
      let withProbes := s.foldl (fun (acc : List Spec.ScEv × Nat) e =>
        (acc.1 ++ [e, .probe "T" (acc.2 % 4), .probe "U" ((acc.2 + 1) % 4)], acc.2 + 1)) ([.probe "T" (i % 4), .probe "U" ((i + 2) % 4)], i)
      some (Spec.histCaseP p params withProbes.1 (Spec.funcHeads[(i / 28) % Spec.funcHeads.length]!))
    toString all.size ++ "\t" ++ "\t".intercalate (cases.map fun (t, d) => rec [t, d])
  | ["c04", "forenum", len, lo, hi] =>
    -- histories with for-init declarations (one name is enough for them), closing braces added
    let names := ["T", "U"]
    let alpha : List Spec.ScEv := [.openBlock, .closeBlock, .forObject "T" false, .forObject "T" true, .forObject "U" true] ++
      names.flatMap fun n => [.typedefName n, .object n, .objectS n (if n == "T" then 2 else 1)]
    let rec seqsF : Nat → List (List Spec.ScEv)
      | 0 => [[]]
      | k+1 => (seqsF k).flatMap fun s => alpha.map fun e => s ++ [e]
    let prefixes : List (List Spec.ScEv) := [[], [.typedefName "T"], [.typedefName "T", .typedefName "U"]]
    let all := (((seqsF len.toNat!).filter fun s => s.any fun e => match e with | .forObject .. => true | _ => false).flatMap
      fun s => prefixes.map fun p => (p, s)).toArray
    let hi' := min hi.toNat! all.size
    let idxs := (List.range (hi' - lo.toNat!)).map (· + lo.toNat!)
    let cases := idxs.filterMap fun i =>
      let (p, s) := all[i]!
      let opens := s.foldl (fun (d : Int) e => match e with | .openBlock => d + 1 | .closeBlock => d - 1 | _ => d) 0
      let s := s ++ List.replicate opens.toNat .closeBlock
      if !(Spec.wellFormed s (Spec.after (p ++ [.openBlock]) [[]]) 0) then none else
      -- every second case leaves the loop directly followed by the next event (no probe between)
      let withProbes := s.foldl (fun (acc : List Spec.ScEv × Nat) e =>
        let bare := i % 2 == 1 && (match e with | .forObject .. => true | _ => false)
        (if bare then acc.1 ++ [e] else acc.1 ++ [e, .probe "T" (acc.2 % 4), .probe "U" ((acc.2 + 1) % 4)], acc.2 + 1)) ([], i)
      some (Spec.histCaseLeaky p withProbes.1)
    toString all.size ++ "\t" ++ "\t".intercalate (cases.map fun (t, d) => rec [t, d])
  | ["c01", "tu", seed, count, depth, nexts] =>
    -- random translation units of the fragment of TransUnit.parse_translation_unit: text and the FileAST the theorem states
    let rec goT : Nat → Nat → List (String × String) → List (String × String)
      | 0, _, acc => acc.reverse
      | n+1, s, acc =>
        let r := TuGen.genProgram depth.toNat! (1 + (s / 65536) % nexts.toNat!) (Spec.lcg s)
        goT n (Spec.lcg r.2) (TuGen.tuCase r.1 :: acc)
    let cases := goT count.toNat! (Spec.lcg (seed.toNat! + 101)) []
    "\t".intercalate (cases.map fun (t, d) => rec [t, d])
  | ["gx", dump] =>
    match readDump dump with
    | some v => "OK\t" ++ "\t".intercalate ((GenExprDriver.exprTokens v).map fun t => rec [t])
    | none => "BADDUMP"
  | ["genast", dump] =>
    match readDump dump with
    | some v => "OK\t" ++ genStr false v ++ "\t" ++ genStr true v
    | none => "BADDUMP"
  | op :: _ => "BADOP " ++ op
  | [] => "BADOP"

partial def loop (h : IO.FS.Stream) (out : IO.FS.Stream) : IO Unit := do
  let line ← h.getLine
  if line.isEmpty then return ()
  let line := if line.back == '\n' then (line.dropEnd 1).toString else line
  out.putStrLn (handle line)
  loop h out

def main : IO Unit := do
  let out ← IO.getStdout
  loop (← IO.getStdin) out
