import PycModel.Proto
import PycModel.Lexer
import PycModel.Parser.Stmt
import PycModel.Generator
import PycModel.Spec.Expr
import PycModel.Generated.LexTables
/-! Model driver: one request per line on stdin, one response per line on stdout. -/
open PycModel PycModel.Proto

def evStr : Ev → String
  | .tok t _ file => rec ["T", t.kind, t.val, toString t.line, toString t.col, file]
  | .err msg line col _ _ => rec ["E", msg, toString line, toString col]
  | .eof file => rec ["EOF", file]
  | .stuck => "STUCK"
  | .dir _ _ => ""

def crashName : Crash → String
  | .assertion => "assertion" | .attribute => "attribute" | .value => "value"
  | .index => "index" | .type => "type" | .key => "key"

def genStr (rp : Bool) (v : Val) : String :=
  match generate rp v with
  | .ok s => "T:" ++ escape s
  | .error (.attribute _) => "X:attribute"
  | .error (.type _) => "X:type"
  | .error (.index _) => "X:index"
  | .error (.assertion _) => "X:assertion"
  | .error (.key _) => "X:key"
  | .error .fuel => "X:fuel"

def handle (line : String) : String :=
  match (line.splitOn "\t").map unescape with
  | ["scan", types, file, text] =>
    let ts := if types.isEmpty then [] else types.splitOn ","
    let evs := scan Generated.lexCfg (fun n => ts.contains n) text.toList file
    "\t".intercalate ((evs.filter fun e => match e with | .dir _ _ => false | _ => true).map evStr)
  | ["parse", file, text] =>
    match (parseText Generated.lexCfg 100000 text file).1 with
    | .ast v => "OK\t" ++ escape (v.dump false) ++ "\t" ++ escape (v.dump true)
    | .parseError loc msg => "PE\t" ++ escape (loc.str ++ ": " ++ msg)
    | .crash k site => "CRASH\t" ++ crashName k ++ "\t" ++ escape site
    | .fuel => "FUEL"
  | ["gen", file, text] =>
    match (parseText Generated.lexCfg 100000 text file).1 with
    | .ast v => "OK\t" ++ genStr false v ++ "\t" ++ genStr true v
    | .parseError loc msg => "PE\t" ++ escape (loc.str ++ ": " ++ msg)
    | .crash k _ => "CRASH\t" ++ crashName k
    | .fuel => "FUEL"
  | ["c02", "enum", n, lo, hi] =>
    -- all trees with n operator nodes, indices [lo, hi), three parenthesisations each
    let all := (Spec.enumExpr n.toNat!).toArray
    let hi' := min hi.toNat! all.size
    let idxs := (List.range (hi' - lo.toNat!)).map (· + lo.toNat!)
    let cases := idxs.flatMap fun i =>
      let e := (Spec.relabel all[i]! 0).1
      let k := e.nodes
      [Spec.mkCase e [] i, Spec.mkCase e (Spec.randDeco k (Spec.lcg (i + 17))) (i + 3),
       Spec.mkCase e (List.replicate k 1) (i + 5)]
    toString all.size ++ "\t" ++ "\t".intercalate (cases.map fun (t, d) => rec [t, d])
  | ["c02", "rand", seed, count, depth] =>
    let rec go : Nat → Nat → List (String × String) → List (String × String)
      | 0, _, acc => acc.reverse
      | n+1, s, acc =>
        let (e, s1) := Spec.randExpr depth.toNat! s
        let d := if (s1 / 65536) % 3 == 0 then [] else Spec.randDeco e.nodes s1
        go n (Spec.lcg s1) (Spec.mkCase e d ((s1 / 7) % 10) :: acc)
    let cases := go count.toNat! (Spec.lcg (seed.toNat! + 1)) []
    "\t".intercalate (cases.map fun (t, d) => rec [t, d])
  | op :: _ => "BADOP " ++ op
  | [] => "BADOP"

partial def loop (h : IO.FS.Stream) (out : IO.FS.Stream) : IO Unit := do
  let line ← h.getLine
  if line.isEmpty then return ()
  let line := if line.back == '\n' then (line.dropEnd 1).toString else line
  out.putStrLn (handle line)
  loop h out

def main : IO Unit := do
  let out ← IO.getStdout
  loop (← IO.getStdin) out
