import PycModel.Regex
import PycModel.Lexer
